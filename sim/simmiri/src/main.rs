//! C15 layer L3 — instruction-level schedules under Miri.
//!
//! rcgen without `crypto` is pure Rust (rcgen, yasna, time, pem, pki-types), so Miri can
//! interpret it: N std threads share one KeyPair (remote, pure-Rust signer) and one issuer
//! Certificate and generate certificates, CSRs and CRLs concurrently; every result must
//! equal the sequential reference computed beforehand. Miri's seeded scheduler
//! (-Zmiri-many-seeds, -Zmiri-preemption-rate) decides every preemption, and its data-race
//! detector is an additional oracle. The scenario seed comes in by argv.
#![allow(dead_code)]

#[path = "../../simnode/src/recipe.rs"]
mod recipe;

use std::sync::Arc;

use recipe::{gen_ca_cert, gen_cert, gen_crl, gen_csr_cert, CertRecipe, CrlRecipe, Swarm};
use simcore::Rng;

struct PureSigner {
    public: Vec<u8>,
    id: u8,
}

impl rcgen::RemoteKeyPair for PureSigner {
    fn public_key(&self) -> &[u8] {
        &self.public
    }
    fn sign(&self, msg: &[u8]) -> Result<Vec<u8>, rcgen::Error> {
        // deterministic stand-in for a signature: H(id || msg) || H(msg || id)
        let mut a = vec![self.id];
        a.extend_from_slice(msg);
        let mut b = msg.to_vec();
        b.push(self.id);
        let mut out = simcore::sha256::sha256(&a).to_vec();
        out.extend_from_slice(&simcore::sha256::sha256(&b));
        // give the scheduler a reason to switch inside the seam
        std::thread::yield_now();
        Ok(out)
    }
    fn algorithm(&self) -> &'static rcgen::SignatureAlgorithm {
        &rcgen::PKCS_ED25519
    }
}

#[derive(Clone)]
enum Op {
    Issue(CertRecipe),
    SelfSign(CertRecipe),
    Csr(CertRecipe),
    Crl(CrlRecipe),
}

fn tbs_of(der: &[u8]) -> Vec<u8> {
    simcore::der::split_signed(der).map(|s| s.tbs.raw.to_vec()).unwrap_or_default()
}

/// (outcome class, tbs, full der, params preserved)
fn run_op(op: &Op, key: &rcgen::KeyPair, subject: &rcgen::KeyPair, issuer: &rcgen::Certificate) -> (String, Vec<u8>, Vec<u8>, bool) {
    match op {
        Op::Issue(r) => {
            let p = r.build();
            let expect = p.clone();
            match p.signed_by(subject, issuer, key) {
                Ok(c) => ("ok".into(), tbs_of(c.der()), c.der().to_vec(), *c.params() == expect),
                Err(e) => (format!("err:{e:?}"), vec![], vec![], true),
            }
        }
        Op::SelfSign(r) => {
            let p = r.build();
            let expect = p.clone();
            match p.self_signed(key) {
                Ok(c) => ("ok".into(), tbs_of(c.der()), c.der().to_vec(), *c.params() == expect),
                Err(e) => (format!("err:{e:?}"), vec![], vec![], true),
            }
        }
        Op::Csr(r) => {
            let p = r.build();
            let before = p.clone();
            match p.serialize_request(subject) {
                Ok(c) => ("ok".into(), tbs_of(c.der()), c.der().to_vec(), p == before),
                Err(e) => (format!("err:{e:?}"), vec![], vec![], p == before),
            }
        }
        Op::Crl(r) => match r.build().signed_by(issuer, key) {
            Ok(c) => ("ok".into(), tbs_of(c.der()), c.der().to_vec(), r.matches(c.params())),
            Err(e) => (format!("err:{e:?}"), vec![], vec![], true),
        },
    }
}

fn main() {
    let args: Vec<String> = std::env::args().collect();
    let seed: u64 = args.get(1).and_then(|s| s.parse().ok()).unwrap_or(1);
    let n_threads: usize = args.get(2).and_then(|s| s.parse().ok()).unwrap_or(3);
    let mut r = Rng::new(simcore::prng::run_seed(seed, "simmiri", 0));
    #[cfg(rcgen_verif)]
    rcgen::verif_hooks::set_hash_seed(r.next_u64());
    let crypto = cfg!(feature = "fakering");
    // the crypto configuration keeps recipes small: interpreted hashing is what costs time there
    let sw = Swarm { sans: !crypto, wide_dn: true, exts: !crypto, constraints: !crypto, big: false, hashed_kid: crypto, auto_serial: crypto };
    // with the ring stub the shared keys are *local* keys (rcgen's own signing plumbing and
    // digest-based key identifiers run); without it they sit behind the pure-Rust remote signer
    // (argv[3] = "rsa": RSA keys, whose signing path in rcgen has a buffer of its own)
    #[cfg(feature = "fakering")]
    let (key, subject) = if args.get(3).map(|s| s.as_str()) == Some("rsa") {
        let fake = |id: u8, r: &mut Rng| {
            let mut k = b"FAKERSA".to_vec();
            k.push(id);
            k.extend_from_slice(&r.bytes(32));
            let alg = [&rcgen::PKCS_RSA_SHA256, &rcgen::PKCS_RSA_SHA384, &rcgen::PKCS_RSA_SHA512][(seed % 3) as usize];
            rcgen::KeyPair::from_pkcs8_der_and_sign_algo(&pki_types::PrivatePkcs8KeyDer::from(k), alg).expect("stub RSA key")
        };
        (Arc::new(fake(1, &mut r)), Arc::new(fake(2, &mut r)))
    } else {
        (
            Arc::new(rcgen::KeyPair::generate_for(&rcgen::PKCS_ED25519).expect("stub keygen")),
            Arc::new(rcgen::KeyPair::generate_for(&rcgen::PKCS_ED25519).expect("stub keygen")),
        )
    };
    #[cfg(not(feature = "fakering"))]
    let (key, subject) = (
        Arc::new(rcgen::KeyPair::from_remote(Box::new(PureSigner { public: r.bytes(32), id: 1 })).unwrap()),
        Arc::new(rcgen::KeyPair::from_remote(Box::new(PureSigner { public: r.bytes(32), id: 2 })).unwrap()),
    );
    let ca_recipe = gen_ca_cert(&mut r, &sw);
    // Two issuer objects with the same content: the sequential reference uses one, the threads
    // share the other, so that the threads make the *first* use of their shared object (lazy
    // initialisation inside a Certificate would otherwise be warmed up by the reference pass).
    let issuer_ref = ca_recipe.build().self_signed(&key).expect("issuer");
    let issuer = Arc::new(ca_recipe.build().self_signed(&key).expect("issuer"));
    if issuer_ref.der() != issuer.der() {
        println!("VIOLATION c15-output-differs two constructions of the issuer differ (deterministic signer)");
        std::process::exit(1);
    }
    let issuer_der = issuer.der().to_vec();
    let issuer_params = issuer.params().clone();
    // the same small set of operations for every thread, in thread-specific order
    let ops: Vec<Op> = vec![
        Op::Issue({
            let mut c = gen_cert(&mut r, &sw);
            // make sure the authority key identifier (derived from the shared issuer) is written
            c.use_aki = true;
            c
        }),
        Op::Csr({
            let mut c = gen_csr_cert(&mut r, &sw);
            c.serial = None;
            c.is_ca = recipe::IsCaR::No;
            c.name_constraints = None;
            c.crl_dps.clear();
            c.use_aki = false;
            c
        }),
        Op::Crl({
            let mut c = gen_crl(&mut r, &sw);
            c.next_update = c.this_update + 86400;
            c
        }),
        Op::SelfSign({
            let mut c = gen_cert(&mut r, &sw);
            // ... and a subject key identifier derived with another method
            c.is_ca = recipe::IsCaR::Ca(None);
            if crypto {
                c.kid = recipe::KidR::Sha384;
                c.serial = None;
            }
            c
        }),
    ];
    let reference: Vec<(String, Vec<u8>, Vec<u8>, bool)> = ops.iter().map(|op| run_op(op, &key, &subject, &issuer_ref)).collect();
    for (i, rf) in reference.iter().enumerate() {
        if !rf.3 {
            println!("VIOLATION c15-params-altered sequential op {i}");
            std::process::exit(1);
        }
    }
    let ops = Arc::new(ops);
    let reference = Arc::new(reference);
    let mut handles = Vec::new();
    for t in 0..n_threads {
        let (key, subject, issuer, ops, reference) = (key.clone(), subject.clone(), issuer.clone(), ops.clone(), reference.clone());
        let hs = seed ^ (t as u64 + 1);
        handles.push(std::thread::spawn(move || -> Option<String> {
            #[cfg(rcgen_verif)]
            rcgen::verif_hooks::set_hash_seed(hs);
            let _ = hs;
            // every thread starts with the same operation (so that the same derivations meet),
            // then walks the list from a thread-specific position
            for k in 0..3 {
                let i = if k == 0 { 0 } else { (t + k * 3) % ops.len() };
                let got = run_op(&ops[i], &key, &subject, &issuer);
                let want = &reference[i];
                if got.0 != want.0 {
                    return Some(format!("c15-outcome-differs thread {t} op {i}: {} vs {}", got.0, want.0));
                }
                if got.1 != want.1 {
                    return Some(format!("c15-tbs-differs thread {t} op {i}"));
                }
                if got.2 != want.2 {
                    return Some(format!("c15-output-differs thread {t} op {i} (deterministic signer)"));
                }
                if !got.3 {
                    return Some(format!("c15-params-altered thread {t} op {i}"));
                }
            }
            None
        }));
    }
    let mut bad = None;
    for h in handles {
        if let Some(m) = h.join().expect("thread panicked") {
            bad.get_or_insert(m);
        }
    }
    if issuer.der().as_ref() != issuer_der.as_slice() || *issuer.params() != issuer_params {
        bad.get_or_insert("c15-shared-state-altered issuer changed".into());
    }
    match bad {
        Some(m) => {
            println!("VIOLATION {m}");
            std::process::exit(1);
        }
        None => {
            let mut all = Vec::new();
            for rf in reference.iter() {
                all.extend_from_slice(&rf.1);
            }
            println!("OK scenario={seed} threads={n_threads} digest={}", simcore::sha256::short(&all));
        }
    }
}
