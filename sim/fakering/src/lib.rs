//! Stub of ring's API surface used by rcgen (see Cargo.toml). Pure Rust, deterministic.
#![allow(non_upper_case_globals, clippy::all)]

mod sha {
    const K: [u32; 64] = [
        0x428a2f98, 0x71374491, 0xb5c0fbcf, 0xe9b5dba5, 0x3956c25b, 0x59f111f1, 0x923f82a4, 0xab1c5ed5, 0xd807aa98, 0x12835b01,
        0x243185be, 0x550c7dc3, 0x72be5d74, 0x80deb1fe, 0x9bdc06a7, 0xc19bf174, 0xe49b69c1, 0xefbe4786, 0x0fc19dc6, 0x240ca1cc,
        0x2de92c6f, 0x4a7484aa, 0x5cb0a9dc, 0x76f988da, 0x983e5152, 0xa831c66d, 0xb00327c8, 0xbf597fc7, 0xc6e00bf3, 0xd5a79147,
        0x06ca6351, 0x14292967, 0x27b70a85, 0x2e1b2138, 0x4d2c6dfc, 0x53380d13, 0x650a7354, 0x766a0abb, 0x81c2c92e, 0x92722c85,
        0xa2bfe8a1, 0xa81a664b, 0xc24b8b70, 0xc76c51a3, 0xd192e819, 0xd6990624, 0xf40e3585, 0x106aa070, 0x19a4c116, 0x1e376c08,
        0x2748774c, 0x34b0bcb5, 0x391c0cb3, 0x4ed8aa4a, 0x5b9cca4f, 0x682e6ff3, 0x748f82ee, 0x78a5636f, 0x84c87814, 0x8cc70208,
        0x90befffa, 0xa4506ceb, 0xbef9a3f7, 0xc67178f2,
    ];
    pub fn sha256(data: &[u8]) -> [u8; 32] {
        let mut h: [u32; 8] = [0x6a09e667, 0xbb67ae85, 0x3c6ef372, 0xa54ff53a, 0x510e527f, 0x9b05688c, 0x1f83d9ab, 0x5be0cd19];
        let mut msg = data.to_vec();
        let bitlen = (data.len() as u64).wrapping_mul(8);
        msg.push(0x80);
        while msg.len() % 64 != 56 {
            msg.push(0);
        }
        msg.extend_from_slice(&bitlen.to_be_bytes());
        for chunk in msg.chunks(64) {
            let mut w = [0u32; 64];
            for i in 0..16 {
                w[i] = u32::from_be_bytes([chunk[4 * i], chunk[4 * i + 1], chunk[4 * i + 2], chunk[4 * i + 3]]);
            }
            for i in 16..64 {
                let s0 = w[i - 15].rotate_right(7) ^ w[i - 15].rotate_right(18) ^ (w[i - 15] >> 3);
                let s1 = w[i - 2].rotate_right(17) ^ w[i - 2].rotate_right(19) ^ (w[i - 2] >> 10);
                w[i] = w[i - 16].wrapping_add(s0).wrapping_add(w[i - 7]).wrapping_add(s1);
            }
            let mut a = h;
            for i in 0..64 {
                let s1 = a[4].rotate_right(6) ^ a[4].rotate_right(11) ^ a[4].rotate_right(25);
                let ch = (a[4] & a[5]) ^ (!a[4] & a[6]);
                let t1 = a[7].wrapping_add(s1).wrapping_add(ch).wrapping_add(K[i]).wrapping_add(w[i]);
                let s0 = a[0].rotate_right(2) ^ a[0].rotate_right(13) ^ a[0].rotate_right(22);
                let maj = (a[0] & a[1]) ^ (a[0] & a[2]) ^ (a[1] & a[2]);
                let t2 = s0.wrapping_add(maj);
                a[7] = a[6];
                a[6] = a[5];
                a[5] = a[4];
                a[4] = a[3].wrapping_add(t1);
                a[3] = a[2];
                a[2] = a[1];
                a[1] = a[0];
                a[0] = t1.wrapping_add(t2);
            }
            for i in 0..8 {
                h[i] = h[i].wrapping_add(a[i]);
            }
        }
        let mut out = [0u8; 32];
        for i in 0..8 {
            out[4 * i..4 * i + 4].copy_from_slice(&h[i].to_be_bytes());
        }
        out
    }
    /// n bytes derived from SHA-256 in counter mode (stand-in for wider digests / signatures)
    pub fn expand(tag: u8, data: &[u8], n: usize) -> Vec<u8> {
        let mut out = Vec::with_capacity(n);
        let mut c = 0u8;
        while out.len() < n {
            let mut inp = vec![tag, c];
            inp.extend_from_slice(data);
            out.extend_from_slice(&sha256(&inp));
            c += 1;
        }
        out.truncate(n);
        out
    }
}

pub mod error {
    #[derive(Debug, Clone, Copy, PartialEq, Eq)]
    pub struct Unspecified;
    impl core::fmt::Display for Unspecified {
        fn fmt(&self, f: &mut core::fmt::Formatter) -> core::fmt::Result {
            f.write_str("ring::error::Unspecified")
        }
    }
    #[derive(Debug, Clone, Copy, PartialEq, Eq)]
    pub struct KeyRejected(pub(crate) &'static str);
    impl core::fmt::Display for KeyRejected {
        fn fmt(&self, f: &mut core::fmt::Formatter) -> core::fmt::Result {
            f.write_str(self.0)
        }
    }
}

pub mod digest {
    #[derive(Debug, PartialEq, Eq)]
    pub struct Algorithm {
        pub(crate) len: usize,
        pub(crate) tag: u8,
    }
    pub static SHA256: Algorithm = Algorithm { len: 32, tag: 0 };
    pub static SHA384: Algorithm = Algorithm { len: 48, tag: 1 };
    pub static SHA512: Algorithm = Algorithm { len: 64, tag: 2 };
    #[derive(Clone)]
    pub struct Digest(Vec<u8>);
    impl AsRef<[u8]> for Digest {
        fn as_ref(&self) -> &[u8] {
            &self.0
        }
    }
    pub fn digest(alg: &'static Algorithm, data: &[u8]) -> Digest {
        if alg.tag == 0 {
            Digest(crate::sha::sha256(data).to_vec())
        } else {
            Digest(crate::sha::expand(alg.tag, data, alg.len))
        }
    }
}

pub mod rand {
    pub trait SecureRandom {
        fn fill(&self, dest: &mut [u8]) -> Result<(), crate::error::Unspecified>;
    }
    #[derive(Clone, Debug)]
    pub struct SystemRandom(());
    impl SystemRandom {
        pub fn new() -> Self {
            SystemRandom(())
        }
    }
    impl SecureRandom for SystemRandom {
        fn fill(&self, dest: &mut [u8]) -> Result<(), crate::error::Unspecified> {
            // deterministic stand-in: a process-wide counter stream
            use std::sync::atomic::{AtomicU64, Ordering};
            static CTR: AtomicU64 = AtomicU64::new(1);
            let c = CTR.fetch_add(1, Ordering::Relaxed);
            let bytes = crate::sha::expand(9, &c.to_le_bytes(), dest.len());
            dest.copy_from_slice(&bytes);
            Ok(())
        }
    }
}

pub mod pkcs8 {
    #[derive(Clone)]
    pub struct Document(pub(crate) Vec<u8>);
    impl AsRef<[u8]> for Document {
        fn as_ref(&self) -> &[u8] {
            &self.0
        }
    }
}

pub mod signature {
    use crate::error::{KeyRejected, Unspecified};
    use crate::rand::SecureRandom;

    pub trait KeyPair: core::fmt::Debug + Send + Sized + Sync {
        type PublicKey: AsRef<[u8]> + core::fmt::Debug + Clone + Send + Sized + Sync;
        fn public_key(&self) -> &Self::PublicKey;
    }

    #[derive(Clone, Debug)]
    pub struct PublicKey(Vec<u8>);
    impl AsRef<[u8]> for PublicKey {
        fn as_ref(&self) -> &[u8] {
            &self.0
        }
    }

    #[derive(Clone)]
    pub struct Signature(Vec<u8>);
    impl AsRef<[u8]> for Signature {
        fn as_ref(&self) -> &[u8] {
            &self.0
        }
    }

    // ---- ECDSA ----
    #[derive(Debug, PartialEq, Eq)]
    pub struct EcdsaSigningAlgorithm {
        pub(crate) id: u8,
        pub(crate) coord: usize,
    }
    pub static ECDSA_P256_SHA256_ASN1_SIGNING: EcdsaSigningAlgorithm = EcdsaSigningAlgorithm { id: 1, coord: 32 };
    pub static ECDSA_P384_SHA384_ASN1_SIGNING: EcdsaSigningAlgorithm = EcdsaSigningAlgorithm { id: 2, coord: 48 };
    pub static ECDSA_P256_SHA256_FIXED_SIGNING: EcdsaSigningAlgorithm = EcdsaSigningAlgorithm { id: 3, coord: 32 };

    /// Stub key material: "pkcs8" documents are `b"FAKE-EC" || id || 32 secret bytes` etc.
    fn fake_doc(kind: &[u8], id: u8, rng: &dyn SecureRandom) -> Result<crate::pkcs8::Document, Unspecified> {
        let mut secret = [0u8; 32];
        rng.fill(&mut secret)?;
        let mut v = kind.to_vec();
        v.push(id);
        v.extend_from_slice(&secret);
        Ok(crate::pkcs8::Document(v))
    }

    #[derive(Debug)]
    pub struct EcdsaKeyPair {
        alg: &'static EcdsaSigningAlgorithm,
        secret: Vec<u8>,
        public: PublicKey,
    }
    impl EcdsaKeyPair {
        pub fn generate_pkcs8(alg: &'static EcdsaSigningAlgorithm, rng: &dyn SecureRandom) -> Result<crate::pkcs8::Document, Unspecified> {
            fake_doc(b"FAKE-EC", alg.id, rng)
        }
        pub fn from_pkcs8(alg: &'static EcdsaSigningAlgorithm, pkcs8: &[u8], _rng: &dyn SecureRandom) -> Result<Self, KeyRejected> {
            if pkcs8.len() != 7 + 1 + 32 || &pkcs8[..7] != b"FAKE-EC" || pkcs8[7] != alg.id {
                return Err(KeyRejected("WrongAlgorithm"));
            }
            let mut public = vec![4u8];
            public.extend_from_slice(&crate::sha::expand(20, pkcs8, alg.coord * 2));
            Ok(EcdsaKeyPair { alg, secret: pkcs8.to_vec(), public: PublicKey(public) })
        }
        pub fn sign(&self, rng: &dyn SecureRandom, msg: &[u8]) -> Result<Signature, Unspecified> {
            // randomised like real ECDSA: a nonce from the rng goes into the value
            let mut nonce = [0u8; 16];
            rng.fill(&mut nonce)?;
            let mut inp = self.secret.clone();
            inp.extend_from_slice(&nonce);
            inp.extend_from_slice(msg);
            let body = crate::sha::expand(21, &inp, self.alg.coord * 2);
            // DER-ish SEQUENCE { INTEGER r, INTEGER s } with positive integers
            let (r, s) = body.split_at(self.alg.coord);
            let int = |x: &[u8]| {
                let mut v = vec![0x02, (x.len() + 1) as u8, 0x00];
                v.extend_from_slice(x);
                v
            };
            let mut content = int(r);
            content.extend_from_slice(&int(s));
            let mut out = vec![0x30, content.len() as u8];
            if content.len() >= 128 {
                out = vec![0x30, 0x81, content.len() as u8];
            }
            out.extend_from_slice(&content);
            Ok(Signature(out))
        }
    }
    impl KeyPair for EcdsaKeyPair {
        type PublicKey = PublicKey;
        fn public_key(&self) -> &PublicKey {
            &self.public
        }
    }

    // ---- Ed25519 ----
    #[derive(Debug, PartialEq, Eq)]
    pub struct EdDSAParameters;
    pub static ED25519: EdDSAParameters = EdDSAParameters;

    #[derive(Debug)]
    pub struct Ed25519KeyPair {
        secret: Vec<u8>,
        public: PublicKey,
    }
    impl Ed25519KeyPair {
        pub fn generate_pkcs8(rng: &dyn SecureRandom) -> Result<crate::pkcs8::Document, Unspecified> {
            fake_doc(b"FAKE-ED", 0, rng)
        }
        pub fn from_pkcs8(pkcs8: &[u8]) -> Result<Self, KeyRejected> {
            Self::from_pkcs8_maybe_unchecked(pkcs8)
        }
        pub fn from_pkcs8_maybe_unchecked(pkcs8: &[u8]) -> Result<Self, KeyRejected> {
            if pkcs8.len() != 7 + 1 + 32 || &pkcs8[..7] != b"FAKE-ED" {
                return Err(KeyRejected("WrongAlgorithm"));
            }
            Ok(Ed25519KeyPair { secret: pkcs8.to_vec(), public: PublicKey(crate::sha::expand(30, pkcs8, 32)) })
        }
        pub fn sign(&self, msg: &[u8]) -> Signature {
            let mut inp = self.secret.clone();
            inp.extend_from_slice(msg);
            Signature(crate::sha::expand(31, &inp, 64))
        }
    }
    impl KeyPair for Ed25519KeyPair {
        type PublicKey = PublicKey;
        fn public_key(&self) -> &PublicKey {
            &self.public
        }
    }

    // ---- RSA ----
    pub trait RsaEncoding: 'static + Sync + core::fmt::Debug {
        #[doc(hidden)]
        fn id(&self) -> u8;
    }
    #[derive(Debug)]
    pub struct RsaPadding(u8);
    impl RsaEncoding for RsaPadding {
        fn id(&self) -> u8 {
            self.0
        }
    }
    pub static RSA_PKCS1_SHA256: RsaPadding = RsaPadding(1);
    pub static RSA_PKCS1_SHA384: RsaPadding = RsaPadding(2);
    pub static RSA_PKCS1_SHA512: RsaPadding = RsaPadding(3);
    pub static RSA_PSS_SHA256: RsaPadding = RsaPadding(4);

    #[derive(Clone, Debug)]
    pub struct RsaPublic {
        bytes: Vec<u8>,
    }
    impl RsaPublic {
        pub fn modulus_len(&self) -> usize {
            256
        }
    }
    impl AsRef<[u8]> for RsaPublic {
        fn as_ref(&self) -> &[u8] {
            &self.bytes
        }
    }

    #[derive(Debug)]
    pub struct RsaKeyPair {
        secret: Vec<u8>,
        public: RsaPublic,
    }
    impl RsaKeyPair {
        pub fn from_pkcs8(pkcs8: &[u8]) -> Result<Self, KeyRejected> {
            if pkcs8.len() != 7 + 1 + 32 || &pkcs8[..7] != b"FAKERSA" {
                return Err(KeyRejected("WrongAlgorithm"));
            }
            Ok(RsaKeyPair { secret: pkcs8.to_vec(), public: RsaPublic { bytes: crate::sha::expand(40, pkcs8, 270) } })
        }
        pub fn public(&self) -> &RsaPublic {
            &self.public
        }
        pub fn sign(&self, padding: &'static dyn RsaEncoding, _rng: &dyn SecureRandom, msg: &[u8], signature: &mut [u8]) -> Result<(), Unspecified> {
            let mut inp = self.secret.clone();
            inp.push(padding.id());
            inp.extend_from_slice(msg);
            let s = crate::sha::expand(41, &inp, signature.len());
            signature.copy_from_slice(&s);
            Ok(())
        }
    }
    impl KeyPair for RsaKeyPair {
        type PublicKey = RsaPublic;
        fn public_key(&self) -> &RsaPublic {
            &self.public
        }
    }
}
