//! Independent validators for the CLI's output: the harness TLV reader for structure and
//! extension contents, OpenSSL and webpki for keys and chains. Nothing here links rcgen.

use openssl::pkey::PKey;
use openssl::stack::Stack;
use openssl::x509::store::X509StoreBuilder;
use openssl::x509::{X509StoreContext, X509};
use simcore::der::{self, Tlv};
use simcore::engine::Outcome;

use crate::{Invocation, SanArg};

type Fail = (String, String);
fn fail<T>(c: &str, d: String) -> Result<T, Fail> {
    Err((c.to_string(), d))
}

fn one_pem(what: &str, text: &str, label: &str) -> Result<Vec<u8>, Fail> {
    if text.matches("-----BEGIN ").count() != 1 || text.matches("-----END ").count() != 1 {
        return fail("c18-pem", format!("{what}: not exactly one PEM block ({} bytes)", text.len()));
    }
    let Some((l, derb)) = simcore::pem_decode(text) else {
        return fail("c18-pem", format!("{what}: PEM does not decode"));
    };
    if l != label {
        return fail("c18-pem", format!("{what}: PEM label is '{l}', want '{label}'"));
    }
    if !text.starts_with("-----BEGIN ") || !text.trim_end().ends_with("-----") {
        return fail("c18-pem", format!("{what}: text outside the PEM block"));
    }
    Ok(derb)
}

struct Cert<'a> {
    tbs: Vec<Tlv<'a>>,
}

fn shape(e: der::DerError) -> Fail {
    ("c18-cert-shape".to_string(), e.0)
}

fn parse_cert(derb: &[u8]) -> Result<Cert<'_>, Fail> {
    let s = der::split_signed(derb).map_err(shape)?;
    let tbs = der::children(s.tbs.content).map_err(shape)?;
    if tbs.len() < 7 {
        return fail("c18-cert-shape", format!("TBSCertificate has {} fields", tbs.len()));
    }
    Ok(Cert { tbs })
}

impl<'a> Cert<'a> {
    fn spki(&self) -> &'a [u8] {
        self.tbs[6].raw
    }
    fn subject(&self) -> Result<Vec<der::WireAttr>, Fail> {
        der::read_name(self.tbs[5]).map_err(shape)
    }
    /// (critical, extnValue content) of the extension with this OID; error on duplicates
    fn ext(&self, oid: &[u64]) -> Result<Option<(bool, &'a [u8])>, Fail> {
        let Some(x) = self.tbs.iter().find(|t| t.tag == 0xa3) else { return Ok(None) };
        let seq = der::read_single(x.content).map_err(shape)?;
        let mut found = None;
        for e in der::children(seq.content).map_err(shape)? {
            let parts = der::children(e.content).map_err(shape)?;
            if parts.len() < 2 || parts[0].tag != der::OID {
                return fail("c18-cert-shape", "malformed Extension".into());
            }
            if der::oid_arcs(parts[0].content).map_err(shape)? == oid {
                if found.is_some() {
                    return fail("c18-cert-shape", format!("extension {:?} appears twice", oid));
                }
                let critical = parts.len() == 3 && parts[1].tag == 0x01 && parts[1].content == [0xff];
                found = Some((critical, parts.last().unwrap().content));
            }
        }
        Ok(found)
    }
}

fn key_matches(what: &str, key_der: &[u8], cert: &Cert) -> Result<(), Fail> {
    let pub_der = match PKey::private_key_from_pkcs8(key_der) {
        Ok(pk) => pk.public_key_to_der().map_err(|e| ("c18-key".to_string(), e.to_string()))?,
        Err(e) => {
            // OpenSSL 3.0 does not read RFC 5958 version-2 PKCS#8 (public key attached), which is
            // what ring writes for Ed25519. Take the seed out with the TLV reader and let OpenSSL
            // derive the public key from it.
            let bad = |m: &str| ("c18-key".to_string(), format!("{what}: OpenSSL cannot load the private key ({e}) and it is not an Ed25519 OneAsymmetricKey: {m}"));
            let outer = der::read_single(key_der).map_err(|x| bad(&x.0))?;
            let ch = der::children(outer.content).map_err(|x| bad(&x.0))?;
            if ch.len() < 3 || ch[1].raw != [0x30, 0x05, 0x06, 0x03, 0x2b, 0x65, 0x70] || ch[2].tag != der::OCTETSTRING {
                return Err(bad("unexpected structure"));
            }
            let seed = der::read_single(ch[2].content).map_err(|x| bad(&x.0))?;
            if seed.tag != der::OCTETSTRING || seed.content.len() != 32 {
                return Err(bad("CurvePrivateKey is not 32 octets"));
            }
            let pk = PKey::private_key_from_raw_bytes(seed.content, openssl::pkey::Id::ED25519).map_err(|x| bad(&x.to_string()))?;
            // if a public key is attached it must be the derived one
            let raw = pk.raw_public_key().map_err(|x| bad(&x.to_string()))?;
            if let Some(att) = ch.iter().find(|c| c.tag == 0x81) {
                if att.content.len() != 33 || att.content[1..] != raw[..] {
                    return fail("c18-key", format!("{what}: the public key attached to the private key file is not the key's own"));
                }
            }
            pk.public_key_to_der().map_err(|x| bad(&x.to_string()))?
        }
    };
    if pub_der != cert.spki() {
        return fail("c18-key-mismatch", format!("{what}: the private key's public half is not the certificate's SubjectPublicKeyInfo"));
    }
    Ok(())
}

pub fn check_pair(inv: &Invocation, ee_key: &str, ee_cert: &str, ca_key: &str, ca_cert: &str, o: &mut Outcome) -> Result<(), Fail> {
    let ee_key_der = one_pem("end-entity key", ee_key, "PRIVATE KEY")?;
    let ee_der = one_pem("end-entity certificate", ee_cert, "CERTIFICATE")?;
    let ca_key_der = one_pem("CA key", ca_key, "PRIVATE KEY")?;
    let ca_der = one_pem("CA certificate", ca_cert, "CERTIFICATE")?;
    let ee = parse_cert(&ee_der)?;
    let ca = parse_cert(&ca_der)?;
    // each key matches its certificate
    key_matches("end-entity", &ee_key_der, &ee)?;
    key_matches("CA", &ca_key_der, &ca)?;
    if ee.spki() == ca.spki() {
        return fail("c18-key-mismatch", "end-entity and CA certificates carry the same public key".into());
    }
    // chain: OpenSSL with the CA as the only trust anchor
    let ee_x = X509::from_der(&ee_der).map_err(|e| ("c18-chain-openssl".to_string(), format!("OpenSSL cannot parse the end-entity certificate: {e}")))?;
    let ca_x = X509::from_der(&ca_der).map_err(|e| ("c18-chain-openssl".to_string(), format!("OpenSSL cannot parse the CA certificate: {e}")))?;
    let mut sb = X509StoreBuilder::new().unwrap();
    sb.add_cert(ca_x).unwrap();
    let store = sb.build();
    let chain = Stack::new().unwrap();
    let mut ctx = X509StoreContext::new().unwrap();
    let (ok, err) = ctx
        .init(&store, &ee_x, &chain, |c| {
            let ok = c.verify_cert()?;
            Ok((ok, c.error().to_string()))
        })
        .map_err(|e| ("c18-chain-openssl".to_string(), e.to_string()))?;
    if !ok {
        return fail("c18-chain-openssl", format!("OpenSSL does not accept end-entity -> CA: {err}"));
    }
    o.count("openssl_chain_verified", 1);
    // chain: webpki (ring provider has no P-521)
    if inv.alg.as_deref() != Some("--ecdsa-p521") {
        use pki_types::{CertificateDer, UnixTime};
        let ca_c = CertificateDer::from(ca_der.clone());
        let ee_c = CertificateDer::from(ee_der.clone());
        let anchor = webpki::anchor_from_trusted_cert(&ca_c).map_err(|e| ("c18-chain-webpki".to_string(), format!("webpki rejects the CA as a trust anchor: {e:?}")))?;
        let eec = webpki::EndEntityCert::try_from(&ee_c).map_err(|e| ("c18-chain-webpki".to_string(), format!("webpki cannot parse the end-entity certificate: {e:?}")))?;
        let usage = if inv.client_auth && !inv.server_auth { webpki::KeyUsage::client_auth() } else { webpki::KeyUsage::server_auth() };
        let algs: &[&dyn pki_types::SignatureVerificationAlgorithm] = &[
            webpki::ring::ECDSA_P256_SHA256,
            webpki::ring::ECDSA_P256_SHA384,
            webpki::ring::ECDSA_P384_SHA256,
            webpki::ring::ECDSA_P384_SHA384,
            webpki::ring::ED25519,
            webpki::ring::RSA_PKCS1_2048_8192_SHA256,
            webpki::ring::RSA_PKCS1_2048_8192_SHA384,
            webpki::ring::RSA_PKCS1_2048_8192_SHA512,
        ];
        let when = UnixTime::since_unix_epoch(std::time::Duration::from_secs(1_700_000_000));
        eec.verify_for_usage(algs, &[anchor], &[], when, usage, None, None)
            .map_err(|e| ("c18-chain-webpki".to_string(), format!("webpki does not accept end-entity -> CA: {e:?}")))?;
        o.count("webpki_chain_verified", 1);
    }
    // the CA is a CA with keyCertSign and cRLSign
    let Some((_, bc)) = ca.ext(&[2, 5, 29, 19])? else {
        return fail("c18-ca-profile", "CA certificate has no basicConstraints".into());
    };
    let bc_seq = der::read_single(bc).map_err(shape)?;
    let bc_ch = der::children(bc_seq.content).map_err(shape)?;
    if !(bc_ch.first().map(|b| b.tag == 0x01 && b.content == [0xff]).unwrap_or(false)) {
        return fail("c18-ca-profile", "CA certificate does not assert cA = TRUE".into());
    }
    let Some((_, ku)) = ca.ext(&[2, 5, 29, 15])? else {
        return fail("c18-ca-profile", "CA certificate has no keyUsage".into());
    };
    let ku_bits = der::read_single(ku).map_err(shape)?;
    if ku_bits.tag != der::BITSTRING || ku_bits.content.len() < 2 {
        return fail("c18-ca-profile", "CA keyUsage is not a BIT STRING".into());
    }
    let b0 = ku_bits.content[1];
    // keyCertSign is bit 5, cRLSign bit 6 (MSB = bit 0)
    if b0 & 0x04 == 0 || b0 & 0x02 == 0 {
        return fail("c18-ca-profile", format!("CA keyUsage {:08b} lacks keyCertSign or cRLSign", b0));
    }
    // the end entity must not be a CA
    if let Some((_, bc)) = ee.ext(&[2, 5, 29, 19])? {
        let s = der::read_single(bc).map_err(shape)?;
        let ch = der::children(s.content).map_err(shape)?;
        if ch.first().map(|b| b.tag == 0x01 && b.content == [0xff]).unwrap_or(false) {
            return fail("c18-ee-profile", "end-entity certificate asserts cA = TRUE".into());
        }
    }
    // exactly the given names, with the right GeneralName kind
    let mut want: Vec<(u8, Vec<u8>)> = inv
        .sans
        .iter()
        .map(|s| match s {
            SanArg::Dns(h) => (0x82u8, h.as_bytes().to_vec()),
            SanArg::Ip(_, octets) => (0x87u8, octets.clone()),
        })
        .collect();
    let mut got: Vec<(u8, Vec<u8>)> = Vec::new();
    if let Some((_, san)) = ee.ext(&[2, 5, 29, 17])? {
        let s = der::read_single(san).map_err(shape)?;
        for g in der::children(s.content).map_err(shape)? {
            got.push((g.tag, g.content.to_vec()));
        }
    }
    want.sort();
    got.sort();
    if want != got {
        let show = |v: &Vec<(u8, Vec<u8>)>| {
            v.iter()
                .map(|(t, c)| if *t == 0x82 { format!("dns:{}", String::from_utf8_lossy(c)) } else { format!("[{:02x}]:{}", t, simcore::sha256::hex(c)) })
                .collect::<Vec<_>>()
                .join(", ")
        };
        return fail("c18-names", format!("subject alternative names are {{{}}}, requested {{{}}}", show(&got), show(&want)));
    }
    // common name
    let want_cn = inv.common_name.clone().unwrap_or_else(|| "Tls End-Entity Certificate".into());
    let subj = ee.subject()?;
    let cns: Vec<&der::WireAttr> = subj.iter().filter(|a| a.oid == [2, 5, 4, 3]).collect();
    if cns.len() != 1 || cns[0].value != want_cn.as_bytes() || cns[0].value_tag != 0x0c {
        return fail(
            "c18-common-name",
            format!("subject common name is {:?}, requested {:?}", cns.iter().map(|a| String::from_utf8_lossy(&a.value).to_string()).collect::<Vec<_>>(), want_cn),
        );
    }
    // requested purposes, extension absent when none
    let mut want_eku: Vec<Vec<u64>> = Vec::new();
    if inv.client_auth {
        want_eku.push(vec![1, 3, 6, 1, 5, 5, 7, 3, 2]);
    }
    if inv.server_auth {
        want_eku.push(vec![1, 3, 6, 1, 5, 5, 7, 3, 1]);
    }
    let mut got_eku: Vec<Vec<u64>> = Vec::new();
    let eku_ext = ee.ext(&[2, 5, 29, 37])?;
    if let Some((_, eku)) = eku_ext {
        let s = der::read_single(eku).map_err(shape)?;
        for p in der::children(s.content).map_err(shape)? {
            got_eku.push(der::oid_arcs(p.content).map_err(shape)?);
        }
    }
    want_eku.sort();
    got_eku.sort();
    if want_eku != got_eku || (want_eku.is_empty() && eku_ext.is_some()) {
        return fail("c18-purposes", format!("extended key usage is {:?}, requested {:?}", got_eku, want_eku));
    }
    Ok(())
}
