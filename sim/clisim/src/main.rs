//! cli-sim — C18: the real `rustls-cert-gen` binary as a child process inside a scratch
//! directory, under the detsys.so system-call seam (seeded getrandom; failing / short /
//! interrupted write, open, mkdir), with seeded directory histories, a file-system
//! reference model and independent validators (own TLV reader, OpenSSL, webpki).
//!
//! Environment: CLISIM_BIN (binary under test), CLISIM_SHIM (detsys.so), CLISIM_SCRATCH
//! (directory for per-run scratch trees), CLISIM_BACKEND (ring | aws_lc_rs).

mod validate;

use std::collections::BTreeMap;
use std::path::{Path, PathBuf};
use std::process::Command;

use serde::{Deserialize, Serialize};
use simcore::engine::{self, Engine, Outcome, Tier, WorkerArgs};
use simcore::Rng;

#[derive(Clone, Debug, PartialEq, Eq, Serialize, Deserialize)]
pub enum SanArg {
    Dns(String),
    /// IP literal as text, plus the octets it must be encoded as
    Ip(String, Vec<u8>),
}

#[derive(Clone, Debug, PartialEq, Eq, Serialize, Deserialize)]
pub enum Invalid {
    NonPrintableCountry(String),
    NonAsciiSan(String),
    UnsupportedAlg(String),
}

#[derive(Clone, Debug, PartialEq, Eq, Serialize, Deserialize)]
pub struct Invocation {
    /// e.g. "--ed25519"; None = default (ECDSA P-256)
    pub alg: Option<String>,
    pub sans: Vec<SanArg>,
    pub common_name: Option<String>,
    pub country: Option<String>,
    pub org: Option<String>,
    pub client_auth: bool,
    pub server_auth: bool,
    pub cert_file_name: Option<String>,
    pub ca_file_name: Option<String>,
    pub invalid: Option<Invalid>,
    /// use `--flag=value` instead of `--flag value`
    pub eq_form: bool,
    /// the order of the options on the command line (0 = the canonical order), and `-o` for `--output`
    #[serde(default)]
    pub arg_order: u64,
    #[serde(default)]
    pub short_o: bool,
    /// who runs this invocation: 0 = the scenario's default (root, or nobody when the scenario is
    /// unprivileged), 1 = nobody, 2 = uid/gid 47001 — a shared directory used by several accounts
    /// (the scratch tree is made world-writable before every invocation)
    #[serde(default)]
    pub uid: u8,
}

#[derive(Clone, Debug, PartialEq, Eq, Serialize, Deserialize)]
pub struct PreState {
    /// path of the output directory relative to the scratch root, e.g. "out" or "a/b/out"
    pub out_rel: String,
    /// create the output directory (and parents) before the first invocation
    pub exists: bool,
    /// unrelated files placed in the output directory beforehand
    pub unrelated: Vec<(String, String)>,
    /// pass the output path as an absolute path
    pub absolute: bool,
    pub trailing_slash: bool,
    /// put the output directory on another file system than the scratch root and the system
    /// temp directory (/dev/shm, a tmpfs), always passed as an absolute path
    #[serde(default)]
    pub other_fs: bool,
    /// ambient conditions a correct tool does not depend on:
    /// TMPDIR: 0 unset, 1 "/tmp", 2 a directory that does not exist, 3 a fresh directory in the scratch root
    #[serde(default)]
    pub tmpdir: u8,
    /// umask: 0 leave (022), 1 = 077, 2 = 000, 3 = 027
    #[serde(default)]
    pub umask: u8,
    /// how a relative output path is spelled: 0 plain, 1 "./p", 2 "detour/../p" (detour exists)
    #[serde(default)]
    pub path_form: u8,
    /// the output directory is reached through a symbolic link
    #[serde(default)]
    pub via_symlink: bool,
    /// the last component of the output path contains bytes that are not valid UTF-8
    /// (a Latin-1 e-acute and 0xFF): a legal directory name on Linux
    #[serde(default)]
    pub non_utf8: bool,
    /// the wall clock the tool sees, frozen (seconds since the epoch; 0 = the real clock).
    /// A tool that reads no clock cannot depend on it.
    #[serde(default)]
    pub clock: i64,
    /// run the tool as an unprivileged user (nobody) instead of root; the scratch tree is made
    /// world-writable first. Root ignores permission bits, an ordinary user does not.
    #[serde(default)]
    pub unprivileged: bool,
    /// where the tool's standard output goes: 0 = /dev/null, 1 = /dev/full (every write fails
    /// with ENOSPC), 2 = a pipe whose reader has gone (EPIPE), 3 = closed. A tool that reports
    /// nothing on stdout cannot depend on it.
    #[serde(default)]
    pub stdout: u8,
    /// another process works in the same place at the same time: 0 = nobody; k+1 = a neighbour
    /// creates the very directory the tool is about to create, immediately before the tool's
    /// k-th mkdir call goes through (the tool's call then meets EEXIST, as in a real race
    /// between two invocations sharing an output directory). Not a failure of anything: a
    /// correct tool still succeeds.
    #[serde(default)]
    pub neighbour: u8,
    /// the tool is started from a working directory that has just been removed (getcwd fails
    /// with ENOENT); applied only when the output path is absolute. A tool that is given
    /// absolute paths cannot depend on where it was started.
    #[serde(default)]
    pub cwd_gone: bool,
}

#[derive(Clone, Debug, PartialEq, Eq, Serialize, Deserialize)]
pub enum Fault {
    /// DETSYS_PLAN entry: kind (getrandom|write|open|mkdir), k-th call, errno name
    Sys { kind: String, k: u32, errno: String },
    /// one of the four target files pre-created as a symlink to /dev/full
    DevFull { which: u8 },
    /// one of the four target files pre-created as a directory
    IsDir { which: u8 },
}

#[derive(Clone, Debug, Serialize, Deserialize)]
pub struct CliTrace {
    pub rand_seed: u64,
    pub pre: PreState,
    pub invocations: Vec<Invocation>,
    /// (invocation index, fault)
    pub fault: Option<(usize, Fault)>,
    /// fault enumeration over every system call of the last invocation's fault-free execution
    pub enumerate: bool,
    /// run the scenario twice and demand byte-identical files (ring build: seam completeness)
    pub twice: bool,
}

pub struct CliSim;

fn backend() -> String {
    std::env::var("CLISIM_BACKEND").unwrap_or_else(|_| "ring".into())
}

fn valid_algs() -> Vec<&'static str> {
    if backend() == "aws_lc_rs" {
        vec!["--rsa", "--ed25519", "--ecdsa-p256", "--ecdsa-p384", "--ecdsa-p521"]
    } else {
        vec!["--ed25519", "--ecdsa-p256", "--ecdsa-p384"]
    }
}

const NAMECH: &[u8] = b"abcdefghijklmnopqrstuvwxyzABCDEFGHIJKLMNOPQRSTUVWXYZ0123456789";
const PRINTABLE2: &[u8] = b"ABCDEFGHIJKLMNOPQRSTUVWXYZabcdefghijklmnopqrstuvwxyz0123456789 '()+,-./:=?";
const TEXTCH: [char; 20] =
    ['a', 'B', 'z', '0', '9', ' ', '.', ',', '\'', '"', '$', '*', '\\', 'é', 'ß', 'Ω', 'ж', '中', '😀', '/'];

fn word(r: &mut Rng, alphabet: &[u8], lo: usize, hi: usize) -> String {
    (0..r.range(lo as u64, hi as u64)).map(|_| *r.pick(alphabet) as char).collect()
}

fn text(r: &mut Rng) -> String {
    // arbitrary UTF-8, non-empty, not starting with '-' (not ambiguous on a command line);
    // now and then a length around the 64 / 128 marks
    let n = if r.chance(1, 12) { *r.pick(&[1usize, 63, 64, 65, 127, 128, 129, 200]) } else { r.range(1, 24) as usize };
    let mut s: String = (0..n).map(|_| *r.pick(&TEXTCH)).collect();
    if s.starts_with('-') || s.trim().is_empty() {
        s.insert(0, 'x');
    }
    s
}

fn base_name(r: &mut Rng) -> String {
    let mut s = word(r, NAMECH, 1, 10);
    match r.below(6) {
        0 => s.push_str(".v2"),
        1 => s.push_str("_srv"),
        2 => s.push_str("-1"),
        3 => s.push_str(" with space"),
        4 => s.push_str("é中"),
        _ => {}
    }
    s
}

fn host(r: &mut Rng) -> String {
    if r.chance(1, 16) {
        // long names: a 63-character label, or close to the 253-character limit
        let l63: String = (0..63).map(|_| *r.pick(&NAMECH[..26]) as char).collect();
        return if r.bool() { format!("{l63}.example") } else { format!("{l63}.{l63}.{l63}.{}", &l63[..59]) };
    }
    let labels = r.range(1, 4);
    let mut v = Vec::new();
    for _ in 0..labels {
        let mut l = word(r, &NAMECH[..26], 1, 8);
        if r.chance(1, 4) {
            l.push('-');
            l.push_str(&word(r, &NAMECH[..36], 1, 3));
        }
        v.push(l);
    }
    if r.chance(1, 8) {
        v.insert(0, "*".into());
    }
    v.join(".")
}

fn ip(r: &mut Rng) -> SanArg {
    if r.bool() {
        let mut b = r.bytes(4);
        match r.below(8) {
            0 => b = vec![0, 0, 0, 0],
            1 => b = vec![255, 255, 255, 255],
            2 => b = vec![127, 0, 0, 1],
            _ => {}
        }
        let a = std::net::Ipv4Addr::new(b[0], b[1], b[2], b[3]);
        SanArg::Ip(a.to_string(), b)
    } else {
        let mut b = r.bytes(16);
        match r.below(8) {
            0 => b[2..14].fill(0), // compressible
            1 => b[..15].fill(0),
            2 => {
                // IPv4-mapped ::ffff:a.b.c.d — still a 16-octet IPv6 address
                b[..10].fill(0);
                b[10] = 0xff;
                b[11] = 0xff;
            }
            3 => b[..12].fill(0), // IPv4-compatible ::a.b.c.d
            4 => b.fill(0),       // ::
            _ => {}
        }
        let mut o = [0u8; 16];
        o.copy_from_slice(&b);
        let a = std::net::Ipv6Addr::from(o);
        // built by construction: the text is the standard formatting (or the full form) of these octets
        let s = if r.chance(1, 3) {
            let seg = a.segments();
            seg.iter().map(|x| format!("{:04x}", x)).collect::<Vec<_>>().join(":")
        } else {
            a.to_string()
        };
        SanArg::Ip(s, b)
    }
}

fn gen_invocation(r: &mut Rng, names: Option<(String, String)>) -> Invocation {
    let algs = valid_algs();
    let mut inv = Invocation {
        alg: if r.chance(1, 5) { None } else { Some(r.pick(&algs).to_string()) },
        sans: {
            let mut v: Vec<SanArg> =
                (0..*r.pick(&[0u64, 0, 1, 1, 2, 3, 5, 12, 40])).map(|_| if r.chance(3, 5) { SanArg::Dns(host(r)) } else { ip(r) }).collect();
            // the same name given twice is still "exactly the given names" (as a multiset)
            if !v.is_empty() && r.chance(1, 8) {
                let d = v[r.usize(v.len())].clone();
                v.push(d);
            }
            v
        },
        common_name: if r.chance(2, 3) { Some(text(r)) } else { None },
        country: if r.chance(1, 2) { Some(word(r, PRINTABLE2, 2, 2)) } else { None },
        org: if r.chance(1, 2) { Some(text(r)) } else { None },
        client_auth: r.bool(),
        server_auth: r.bool(),
        cert_file_name: None,
        ca_file_name: None,
        invalid: None,
        eq_form: r.chance(1, 3),
        arg_order: if r.chance(1, 2) { r.next_u64() | 1 } else { 0 },
        short_o: r.chance(1, 4),
        uid: if r.chance(1, 4) { r.range(1, 2) as u8 } else { 0 },
    };
    // subject strings that look like names: a host name, an IP literal, or the text of one of
    // the given names. They stay subject strings; the names in the certificate are the --san ones.
    if r.chance(1, 5) {
        let s = match r.below(4) {
            0 => format!("{}.{}", word(r, &NAMECH[..26], 1, 8), *r.pick(&["example.com", "example", "test.internal", "co.uk"])),
            1 => match ip(r) {
                SanArg::Ip(t, _) => t,
                SanArg::Dns(t) => t,
            },
            2 if !inv.sans.is_empty() => match r.pick(&inv.sans).clone() {
                SanArg::Ip(t, _) => t,
                SanArg::Dns(t) => t,
            },
            _ => host(r),
        };
        if !s.starts_with('-') && !s.starts_with('*') {
            if r.chance(3, 4) {
                inv.common_name = Some(s);
            } else {
                inv.org = Some(s);
            }
        }
    }
    if let Some(c) = &inv.country {
        if c.starts_with('-') || c.trim().is_empty() {
            inv.country = Some("ZZ".into());
        }
    }
    match names {
        Some((c, a)) => {
            inv.cert_file_name = Some(c);
            inv.ca_file_name = Some(a);
        }
        None => {
            if r.chance(2, 3) {
                inv.cert_file_name = Some(base_name(r));
            }
            if r.chance(2, 3) {
                let mut n = base_name(r);
                if Some(&n) == inv.cert_file_name.as_ref() || n == "cert" {
                    n.push_str("-ca");
                }
                inv.ca_file_name = Some(n);
            }
            if inv.cert_file_name.as_deref() == Some("root-ca") && inv.ca_file_name.is_none() {
                inv.cert_file_name = Some("leaf".into());
            }
            // distinct base names of which one is the other plus ".key": <a>.key.pem is then both
            // the key file of one and the certificate file of the other
            if r.chance(1, 30) {
                if r.bool() {
                    inv.cert_file_name = Some(format!("{}.key", inv.ca_base()));
                } else {
                    inv.ca_file_name = Some(format!("{}.key", inv.cert_base()));
                }
                return inv;
            }
            // distinct names that differ only in letter case (distinct files on this file system)
            if r.chance(1, 10) {
                let base = inv.cert_base();
                let flipped: String = base.chars().map(|c| if c.is_ascii_lowercase() { c.to_ascii_uppercase() } else { c.to_ascii_lowercase() }).collect();
                if flipped != base {
                    inv.ca_file_name = Some(flipped);
                }
            }
        }
    }
    inv
}

impl Invocation {
    pub fn cert_base(&self) -> String {
        self.cert_file_name.clone().unwrap_or_else(|| "cert".into())
    }
    pub fn ca_base(&self) -> String {
        self.ca_file_name.clone().unwrap_or_else(|| "root-ca".into())
    }
    /// the four file names in the order the tool writes them
    pub fn files(&self) -> [String; 4] {
        [
            format!("{}.key.pem", self.cert_base()),
            format!("{}.pem", self.cert_base()),
            format!("{}.key.pem", self.ca_base()),
            format!("{}.pem", self.ca_base()),
        ]
    }
    /// `args` with the output path given as an OsString (it may be non-UTF-8).
    pub fn os_args(&self, out: &std::ffi::OsStr) -> Vec<std::ffi::OsString> {
        const MARK: &str = "\u{1}OUTPUT\u{1}";
        self.args(MARK)
            .into_iter()
            .map(|a| match a.find(MARK) {
                Some(i) => {
                    let mut o = std::ffi::OsString::from(&a[..i]);
                    o.push(out);
                    o.push(&a[i + MARK.len()..]);
                    o
                }
                None => a.into(),
            })
            .collect()
    }

    pub fn args(&self, out: &str) -> Vec<String> {
        // one group per option occurrence, so that the groups can be permuted
        let mut groups: Vec<Vec<String>> = Vec::new();
        let kv = |k: &str, v: &str| -> Vec<String> {
            if self.eq_form {
                vec![format!("{k}={v}")]
            } else {
                vec![k.to_string(), v.to_string()]
            }
        };
        groups.push(kv(if self.short_o { "-o" } else { "--output" }, out));
        match &self.invalid {
            Some(Invalid::UnsupportedAlg(f)) => groups.push(vec![f.clone()]),
            _ => {
                if let Some(f) = &self.alg {
                    groups.push(vec![f.clone()]);
                }
            }
        }
        if self.client_auth {
            groups.push(vec!["--client-auth".into()]);
        }
        if self.server_auth {
            groups.push(vec!["--server-auth".into()]);
        }
        if let Some(n) = &self.cert_file_name {
            groups.push(kv("--cert-file-name", n));
        }
        if let Some(n) = &self.ca_file_name {
            groups.push(kv("--ca-file-name", n));
        }
        // the relative order of the --san occurrences is kept (they form one list)
        let mut san_groups: Vec<Vec<String>> = Vec::new();
        for s in &self.sans {
            match s {
                SanArg::Dns(h) => san_groups.push(kv("--san", h)),
                SanArg::Ip(t, _) => san_groups.push(kv("--san", t)),
            }
        }
        if let Some(Invalid::NonAsciiSan(s)) = &self.invalid {
            san_groups.push(kv("--san", s));
        }
        if let Some(n) = &self.common_name {
            groups.push(kv("--common-name", n));
        }
        match &self.invalid {
            Some(Invalid::NonPrintableCountry(c)) => groups.push(kv("--country-name", c)),
            _ => {
                if let Some(c) = &self.country {
                    groups.push(kv("--country-name", c));
                }
            }
        }
        if let Some(o) = &self.org {
            groups.push(kv("--organization-name", o));
        }
        if self.arg_order != 0 {
            let mut r = Rng::new(self.arg_order);
            r.shuffle(&mut groups);
            // scatter the --san occurrences between the other options, order among themselves kept
            let mut out_groups: Vec<Vec<String>> = Vec::new();
            let mut sans = san_groups.into_iter().peekable();
            for g in groups {
                while sans.peek().is_some() && r.chance(1, 3) {
                    out_groups.push(sans.next().unwrap());
                }
                out_groups.push(g);
            }
            out_groups.extend(sans);
            return out_groups.into_iter().flatten().collect();
        }
        // canonical order: sans after the file names, as before
        let mut a: Vec<String> = Vec::new();
        let split = groups.iter().position(|g| g[0].starts_with("--common-name") || g[0].starts_with("--country-name") || g[0].starts_with("--organization-name")).unwrap_or(groups.len());
        for (i, g) in groups.into_iter().enumerate() {
            if i == split {
                a.extend(san_groups.drain(..).flatten());
            }
            a.extend(g);
        }
        a.extend(san_groups.into_iter().flatten());
        a
    }
}

impl Engine for CliSim {
    type Trace = CliTrace;
    const NAME: &'static str = "cli-sim";

    fn generate(run_seed: u64, _index: u64, _tier: Tier, mode: &str) -> CliTrace {
        let mut r = Rng::new(run_seed);
        let rand_seed = r.next_u64() >> 1;
        let depth = *r.pick(&[0u64, 0, 1, 2]);
        let mut out_rel = (0..depth).map(|_| word(&mut r, NAMECH, 1, 5)).collect::<Vec<_>>();
        out_rel.push(if r.chance(1, 4) { "out dir é".into() } else { "out".into() });
        let exists = r.bool();
        let unrelated = if exists && r.chance(1, 2) {
            (0..r.range(1, 3)).map(|i| (format!("unrelated{i}.txt"), word(&mut r, NAMECH, 0, 30))).collect()
        } else {
            vec![]
        };
        let pre = PreState {
            out_rel: out_rel.join("/"),
            exists,
            unrelated,
            absolute: r.bool(),
            trailing_slash: r.chance(1, 4),
            other_fs: r.chance(1, 6) && std::path::Path::new("/dev/shm").is_dir(),
            tmpdir: if r.chance(1, 3) { r.range(1, 3) as u8 } else { 0 },
            umask: if r.chance(1, 4) { r.range(1, 3) as u8 } else { 0 },
            path_form: if r.chance(1, 4) { r.range(1, 2) as u8 } else { 0 },
            via_symlink: r.chance(1, 8),
            non_utf8: r.chance(1, 10),
            unprivileged: r.chance(1, 4),
            stdout: if r.chance(1, 5) { r.range(1, 3) as u8 } else { 0 },
            neighbour: if r.chance(1, 5) { r.range(1, 4) as u8 } else { 0 },
            cwd_gone: r.chance(1, 8),
            clock: if r.chance(1, 4) {
                *r.pick(&[
                    1835438400i64, // 2028-02-29 12:00:00 (leap day)
                    951825600,     // 2000-02-29
                    1830297599,    // 2027-12-31 23:59:59
                    2147483647,    // 2038-01-19 03:14:07
                    4107542399,    // 2100-02-28 23:59:59
                    915148800,     // 1999-01-01
                    1,             // 1970-01-01 00:00:01
                ])
            } else {
                0
            },
        };
        let n_inv = *r.pick(&[1usize, 1, 1, 2, 2, 3]);
        let mut invocations: Vec<Invocation> = Vec::new();
        for k in 0..n_inv {
            // later invocations reuse the first one's base names half of the time
            let names = if k > 0 && r.bool() {
                Some((invocations[0].cert_base(), invocations[0].ca_base()))
            } else {
                None
            };
            let mut inv = gen_invocation(&mut r, names);
            if mode.contains("invalid") || (mode == "mixed" && r.chance(1, 4)) {
                inv.invalid = Some(match r.below(3) {
                    0 => Invalid::NonPrintableCountry(r.pick(&["D€", "U_", "A@", "ü1", "a*", "&b", "x;", "#!"]).to_string()),
                    1 => Invalid::NonAsciiSan(if r.bool() {
                        r.pick(&["bücher.example", "例え.jp", "caf\u{e9}.fr", "a.b.ç"]).to_string()
                    } else {
                        // host-like text of any length with 1-4 characters of 2, 3 or 4 bytes at
                        // arbitrary byte positions (diagnostics that quote or cut the value meet
                        // every alignment of a character boundary)
                        let n = *r.pick(&[3u64, 20, 62, 63, 64, 65, 66, 126, 127, 128, 129, 254, 255, 256, 257]) + r.below(3);
                        let mut chars: Vec<char> = (0..n).map(|i| if i % 9 == 8 { '.' } else { *r.pick(&['a', 'k', 'z', '0', '7', '-']) }).collect();
                        for _ in 0..r.range(1, 4) {
                            let at = if r.bool() { r.usize(chars.len() + 1) } else { chars.len().min(*r.pick(&[16usize, 32, 64, 128, 256]) - 4 + r.usize(8)) };
                            chars.insert(at, *r.pick(&['ü', 'é', 'ß', '例', '€', '😀', '\u{10348}']));
                        }
                        chars.into_iter().collect()
                    }),
                    _ => Invalid::UnsupportedAlg(if backend() == "aws_lc_rs" { "--ecdsa-p224".into() } else { r.pick(&["--rsa", "--ecdsa-p521"]).to_string() }),
                });
            }
            invocations.push(inv);
        }
        let mut fault = None;
        if mode.contains("fault") {
            let idx = r.usize(n_inv);
            invocations[idx].invalid = None;
            let f = match r.below(10) {
                0..=3 => Fault::Sys { kind: "write".into(), k: r.below(4) as u32, errno: r.pick(&["eintr", "short", "enospc", "eio"]).to_string() },
                4 | 5 => Fault::Sys { kind: "open".into(), k: r.below(4) as u32, errno: r.pick(&["eacces", "emfile", "eintr", "enospc"]).to_string() },
                6 => Fault::Sys { kind: "mkdir".into(), k: r.below(3) as u32, errno: r.pick(&["eacces", "eio", "enospc"]).to_string() },
                7 => Fault::Sys { kind: "getrandom".into(), k: r.below(12) as u32, errno: r.pick(&["eintr", "short", "eio", "eperm"]).to_string() },
                8 => Fault::DevFull { which: r.below(4) as u8 },
                _ => Fault::IsDir { which: r.below(4) as u8 },
            };
            fault = Some((idx, f));
        }
        let enumerate = mode.contains("enum");
        if enumerate {
            for inv in invocations.iter_mut() {
                inv.invalid = None;
            }
        }
        CliTrace { rand_seed, pre, invocations, fault, enumerate, twice: backend() == "ring" && !mode.contains("fault") && !enumerate && r.chance(1, 3) }
    }

    fn execute(t: &CliTrace) -> Outcome {
        let mut o = Outcome::default();
        let first = scenario(t, t.fault.as_ref(), &mut o, "base", true);
        if o.violation.is_some() {
            return o;
        }
        if t.twice {
            let mut o2 = Outcome::default();
            let second = scenario(t, t.fault.as_ref(), &mut o2, "again", false);
            o.count("determinism_pairs", 1);
            if first.final_snapshot != second.final_snapshot {
                o.violate(
                    "c18-seam-incomplete",
                    "the same scenario with the same DETSYS_RAND_SEED produced different files (simulator seam is incomplete)".into(),
                );
                return o;
            }
        }
        if t.enumerate {
            let last = t.invocations.len() - 1;
            for (kind, n) in &first.last_counts {
                let errnos: &[&str] = match kind.as_str() {
                    "write" => &["eintr", "short", "enospc", "eio"],
                    "open" => &["eacces", "emfile", "enospc"],
                    "mkdir" => &["eacces", "eio"],
                    _ => &["eintr", "short", "eio", "eperm"],
                };
                for k in 0..*n {
                    for e in errnos {
                        let f = (last, Fault::Sys { kind: kind.clone(), k: k as u32, errno: e.to_string() });
                        o.count("enum_fault_points", 1);
                        scenario(t, Some(&f), &mut o, &format!("{kind}:{k}:{e}"), true);
                        if o.violation.is_some() {
                            return o;
                        }
                    }
                }
            }
        }
        o.nontrivial = t.invocations.len() > 1
            || t.fault.is_some()
            || t.enumerate
            || t.invocations.iter().any(|i| i.invalid.is_some() || i.sans.len() >= 2);
        o
    }

    fn shrink(t: &CliTrace) -> Vec<CliTrace> {
        let mut v = Vec::new();
        if t.enumerate {
            // pin the enumeration down to single fault points on the last invocation
            let last = t.invocations.len() - 1;
            for kind in ["write", "open", "mkdir", "getrandom"] {
                for k in 0..16u32 {
                    for e in ["eintr", "short", "enospc", "eio", "eacces", "emfile", "eperm"] {
                        let mut c = t.clone();
                        c.enumerate = false;
                        c.fault = Some((last, Fault::Sys { kind: kind.into(), k, errno: e.into() }));
                        v.push(c);
                    }
                }
            }
            let mut c = t.clone();
            c.enumerate = false;
            v.push(c);
            return v;
        }
        if t.invocations.len() > 1 {
            for i in 0..t.invocations.len() {
                let mut c = t.clone();
                c.invocations.remove(i);
                match &mut c.fault {
                    Some((fi, _)) if *fi == i => continue,
                    Some((fi, _)) if *fi > i => *fi -= 1,
                    _ => {}
                }
                v.push(c);
            }
        }
        if t.twice {
            let mut c = t.clone();
            c.twice = false;
            v.push(c);
        }
        if t.pre.exists
            || !t.pre.unrelated.is_empty()
            || t.pre.absolute
            || t.pre.trailing_slash
            || t.pre.other_fs
            || t.pre.out_rel != "out"
            || t.pre.tmpdir != 0
            || t.pre.umask != 0
            || t.pre.path_form != 0
            || t.pre.via_symlink
            || t.pre.non_utf8
            || t.pre.clock != 0
            || t.pre.unprivileged
            || t.pre.stdout != 0
            || t.pre.neighbour != 0
            || t.pre.cwd_gone
        {
            let mut c = t.clone();
            c.pre = PreState {
                out_rel: "out".into(),
                exists: false,
                unrelated: vec![],
                absolute: false,
                trailing_slash: false,
                other_fs: false,
                tmpdir: 0,
                umask: 0,
                path_form: 0,
                via_symlink: false,
                non_utf8: false,
                clock: 0,
                unprivileged: false,
                stdout: 0,
                neighbour: 0,
                cwd_gone: false,
            };
            v.push(c);
            let mut c = t.clone();
            c.pre.unrelated.clear();
            v.push(c);
        }
        for (i, inv) in t.invocations.iter().enumerate() {
            let mut push = |f: &dyn Fn(&mut Invocation)| {
                let mut c = t.clone();
                f(&mut c.invocations[i]);
                if c.invocations[i] != *inv {
                    v.push(c);
                }
            };
            push(&|x| x.sans.clear());
            if inv.sans.len() > 1 {
                for k in 0..inv.sans.len() {
                    push(&|x| {
                        x.sans.remove(k);
                    });
                }
            }
            push(&|x| x.common_name = None);
            push(&|x| x.country = None);
            push(&|x| x.org = None);
            push(&|x| x.client_auth = false);
            push(&|x| x.server_auth = false);
            push(&|x| x.cert_file_name = None);
            push(&|x| x.ca_file_name = None);
            push(&|x| x.alg = None);
            push(&|x| x.eq_form = false);
            push(&|x| x.arg_order = 0);
            push(&|x| x.short_o = false);
            push(&|x| x.uid = 0);
            push(&|x| x.common_name = x.common_name.as_ref().map(|_| "cn".to_string()));
        }
        v
    }
}

struct ScenarioResult {
    final_snapshot: BTreeMap<String, String>,
    last_counts: Vec<(String, u64)>,
}

#[derive(Clone, Debug, PartialEq)]
enum Entry {
    /// content hash known and must not change
    Fixed(String),
    /// written by an invocation that failed under a fault: anything goes
    Unknown,
}

fn snapshot(dir: &Path) -> BTreeMap<String, String> {
    let mut m = BTreeMap::new();
    if let Ok(rd) = std::fs::read_dir(dir) {
        for e in rd.flatten() {
            let name = e.file_name().to_string_lossy().to_string();
            let p = e.path();
            let md = std::fs::symlink_metadata(&p);
            let tag = match md {
                Ok(m) if m.file_type().is_symlink() => "symlink".to_string(),
                Ok(m) if m.is_dir() => "dir".to_string(),
                _ => match std::fs::read(&p) {
                    Ok(b) => simcore::sha256::sha256_hex(&b),
                    Err(_) => "unreadable".into(),
                },
            };
            m.insert(name, tag);
        }
    }
    m
}

fn scratch_root() -> PathBuf {
    PathBuf::from(std::env::var("CLISIM_SCRATCH").unwrap_or_else(|_| "/verif/work/cli".into()))
}

static COUNTER: std::sync::atomic::AtomicU64 = std::sync::atomic::AtomicU64::new(0);

fn scenario(t: &CliTrace, fault: Option<&(usize, Fault)>, o: &mut Outcome, label: &str, judge_it: bool) -> ScenarioResult {
    let n = COUNTER.fetch_add(1, std::sync::atomic::Ordering::Relaxed);
    let root = scratch_root().join(format!("run-{}-{}", std::process::id(), n));
    let _ = std::fs::remove_dir_all(&root);
    std::fs::create_dir_all(&root).expect("scratch root");
    let shm_root = PathBuf::from(format!("/dev/shm/clisim-{}-{}", std::process::id(), n));
    // the output path relative to its base, as an OsString (it may be non-UTF-8)
    let rel_os: std::ffi::OsString = if t.pre.non_utf8 {
        use std::os::unix::ffi::OsStringExt;
        let mut b = t.pre.out_rel.clone().into_bytes();
        b.extend_from_slice(b"-caf\xE9\xFF");
        std::ffi::OsString::from_vec(b)
    } else {
        t.pre.out_rel.clone().into()
    };
    let out_dir = if t.pre.other_fs {
        let _ = std::fs::remove_dir_all(&shm_root);
        std::fs::create_dir_all(&shm_root).expect("scratch on /dev/shm");
        shm_root.join(&rel_os)
    } else {
        root.join(&rel_os)
    };
    // the output directory reached through a symbolic link: the real directory exists, the
    // given path is a link to it (only for outputs inside the scratch root)
    let mut link_target: Option<PathBuf> = None;
    if t.pre.via_symlink && !t.pre.other_fs {
        let real_dir = root.join("real-output-dir");
        std::fs::create_dir_all(&real_dir).expect("symlink target");
        if let Some(parent) = out_dir.parent() {
            std::fs::create_dir_all(parent).expect("parents of the link");
        }
        std::os::unix::fs::symlink(&real_dir, &out_dir).expect("symlink to output dir");
        link_target = Some(real_dir);
    }
    if t.pre.path_form == 2 {
        std::fs::create_dir_all(root.join("detour")).expect("detour");
    }
    if t.pre.tmpdir == 3 {
        std::fs::create_dir_all(root.join("tmp-here")).expect("tmpdir");
    }
    if t.pre.exists {
        std::fs::create_dir_all(&out_dir).expect("pre-state dir");
        for (name, content) in &t.pre.unrelated {
            std::fs::write(out_dir.join(name), content).expect("pre-state file");
        }
    }
    let mut model: BTreeMap<String, Entry> =
        t.pre.unrelated.iter().filter(|_| t.pre.exists).map(|(n, c)| (n.clone(), Entry::Fixed(simcore::sha256::sha256_hex(c.as_bytes())))).collect();
    let mut res = ScenarioResult { final_snapshot: BTreeMap::new(), last_counts: vec![] };
    o.count("scenarios", 1);
    for (i, inv) in t.invocations.iter().enumerate() {
        let my_fault = fault.filter(|(fi, _)| *fi == i).map(|(_, f)| f.clone());
        // file-level faults are part of the pre-state of this invocation
        match &my_fault {
            Some(Fault::DevFull { which }) => {
                let _ = std::fs::create_dir_all(&out_dir);
                let p = out_dir.join(&inv.files()[*which as usize]);
                let _ = std::fs::remove_file(&p);
                let _ = std::os::unix::fs::symlink("/dev/full", &p);
            }
            Some(Fault::IsDir { which }) => {
                let p = out_dir.join(&inv.files()[*which as usize]);
                let _ = std::fs::remove_file(&p);
                let _ = std::fs::create_dir_all(&p);
            }
            _ => {}
        }
        let before = snapshot(&out_dir);
        // residue of an earlier fault (a target that is a directory or a symlink to /dev/full)
        // makes this invocation a faulted one too
        let residue = inv.files().iter().any(|f| matches!(before.get(f).map(|s| s.as_str()), Some("dir") | Some("symlink")));
        let mut out_arg: std::ffi::OsString = if t.pre.absolute || t.pre.other_fs {
            out_dir.clone().into_os_string()
        } else {
            let mut p = std::ffi::OsString::new();
            match t.pre.path_form {
                1 => p.push("./"),
                2 => p.push("detour/../"),
                _ => {}
            }
            p.push(&rel_os);
            p
        };
        if t.pre.trailing_slash {
            out_arg.push("/");
        }
        let report = root.join(format!("report-{i}.json"));
        #[allow(unused_mut)]
        let bin = std::env::var("CLISIM_BIN").expect("CLISIM_BIN");
        // the program chain: [sh -c 'umask ..; exec "$0" "$@"'] [setpriv ... --] tool
        let run_as: u32 = match (inv.uid, t.pre.unprivileged) {
            (1, _) | (0, true) => 65534,
            (2, _) => 47001,
            _ => 0,
        };
        let drop_priv = run_as != 0 && is_root() && Path::new("/usr/bin/setpriv").exists() && unprivileged_can_reach(&root, &bin);
        if run_as != 0 && !drop_priv {
            o.count("unprivileged_identity_not_available_here(ran_with_own_identity)", 1);
        }
        let mut chain: Vec<std::ffi::OsString> = Vec::new();
        if drop_priv {
            for a in ["/usr/bin/setpriv".to_string(), format!("--reuid={run_as}"), format!("--regid={run_as}"), "--clear-groups".to_string(), "--".to_string()] {
                chain.push(a.into());
            }
            make_world_writable(&root);
            if t.pre.other_fs {
                make_world_writable(&shm_root);
            }
            o.count("invocations_as_unprivileged_user", 1);
        }
        chain.push(bin.into());
        let mut cmd = if t.pre.umask == 0 && t.pre.stdout != 3 {
            let mut c = Command::new(&chain[0]);
            c.args(&chain[1..]);
            c
        } else if t.pre.umask == 0 {
            // closing a descriptor needs the shell too
            let mut c = Command::new("/bin/sh");
            c.arg("-c").arg("exec \"$0\" \"$@\" >&-").args(&chain);
            c
        } else {
            // the shell sets the file-creation mask and then *becomes* the next program (exec), so
            // the seam's counters start with the tool's own first system call
            let mask = ["022", "077", "000", "027"][t.pre.umask as usize & 3];
            let mut c = Command::new("/bin/sh");
            let close = if t.pre.stdout == 3 { " >&-" } else { "" };
            c.arg("-c").arg(format!("umask {mask}; exec \"$0\" \"$@\"{close}")).args(&chain);
            c
        };
        cmd.args(inv.os_args(&out_arg)).current_dir(&root).env_clear();
        if t.pre.cwd_gone && (t.pre.absolute || t.pre.other_fs) {
            let gone = root.join(format!("cwd-{i}"));
            std::fs::create_dir_all(&gone).expect("cwd to remove");
            if drop_priv {
                make_world_writable(&root);
            }
            cmd.current_dir(&gone);
            let g = gone.clone();
            // runs in the child after chdir and before exec: the directory the tool starts in is gone
            unsafe {
                std::os::unix::process::CommandExt::pre_exec(&mut cmd, move || {
                    let _ = std::fs::remove_dir(&g);
                    Ok(())
                });
            }
            o.count("invocations_started_in_a_removed_directory", 1);
        }
        cmd.env("PATH", "/usr/bin:/bin");
        match t.pre.tmpdir {
            1 => {
                cmd.env("TMPDIR", "/tmp");
            }
            2 => {
                cmd.env("TMPDIR", root.join("no-such-tmp"));
            }
            3 => {
                cmd.env("TMPDIR", root.join("tmp-here"));
            }
            _ => {}
        }
        if let Ok(shim) = std::env::var("CLISIM_SHIM") {
            cmd.env("LD_PRELOAD", shim);
            cmd.env("DETSYS_RAND_SEED", (t.rand_seed.wrapping_add(i as u64)).to_string());
            cmd.env("DETSYS_REPORT", &report);
            if t.pre.clock != 0 {
                cmd.env("DETSYS_CLOCK_ABS", t.pre.clock.to_string());
            }
            let mut plan: Vec<String> = Vec::new();
            if let Some(Fault::Sys { kind, k, errno }) = &my_fault {
                plan.push(format!("{kind}:{k}:{errno}"));
            }
            if t.pre.neighbour != 0 {
                plan.push(format!("mkdir:{}:raced", t.pre.neighbour - 1));
            }
            if !plan.is_empty() {
                cmd.env("DETSYS_PLAN", plan.join(","));
            }
        }
        // watchdog: a tool that never returns is ended after the limit (it only ever matters for
        // a broken tool; a run takes milliseconds)
        match t.pre.stdout {
            1 => {
                let full = std::fs::OpenOptions::new().write(true).open("/dev/full").expect("/dev/full");
                cmd.stdout(std::process::Stdio::from(full));
            }
            2 => {
                cmd.stdout(std::process::Stdio::piped());
            }
            _ => {
                cmd.stdout(std::process::Stdio::null());
            }
        }
        cmd.stderr(std::process::Stdio::piped());
        let mut child = cmd.spawn().expect("spawn rustls-cert-gen");
        // the reader of the pipe goes away at once: whatever the tool writes there gets EPIPE
        drop(child.stdout.take());
        let mut err_pipe = child.stderr.take().expect("stderr pipe");
        let err_reader = std::thread::spawn(move || {
            let mut v = Vec::new();
            let _ = std::io::Read::read_to_end(&mut err_pipe, &mut v);
            v
        });
        let limit = std::time::Duration::from_secs(simcore::engine::watchdog_secs() * 2);
        let started = std::time::Instant::now();
        let mut timed_out = false;
        let status = loop {
            match child.try_wait().expect("wait") {
                Some(st) => break st,
                None if started.elapsed() > limit => {
                    timed_out = true;
                    let _ = child.kill();
                    break child.wait().expect("wait after kill");
                }
                None => std::thread::sleep(std::time::Duration::from_millis(if started.elapsed().as_millis() < 100 { 1 } else { 20 })),
            }
        };
        let code = if timed_out { Some(-1) } else { status.code() };
        let mut stderr = String::from_utf8_lossy(&err_reader.join().unwrap_or_default()).to_string();
        if timed_out {
            stderr = format!("(did not terminate within {} s; ended by the watchdog) {stderr}", limit.as_secs());
            o.count("invocations_ended_by_watchdog", 1);
        }
        let rep: serde_json::Value =
            std::fs::read_to_string(&report).ok().and_then(|s| serde_json::from_str(&s).ok()).unwrap_or(serde_json::Value::Null);
        let _ = std::fs::remove_file(&report);
        let fired = rep["fired"].as_array().map(|a| !a.is_empty()).unwrap_or(false) || matches!(my_fault, Some(Fault::DevFull { .. }) | Some(Fault::IsDir { .. }));
        if i == t.invocations.len() - 1 && my_fault.is_none() {
            if let Some(c) = rep["counts"].as_object() {
                res.last_counts = c.iter().map(|(k, v)| (k.clone(), v.as_u64().unwrap_or(0))).collect();
            }
        }
        if rep["raced"].as_u64().unwrap_or(0) > 0 {
            o.count("neighbour_won_mkdir_race", 1);
        }
        if let Some(f) = &my_fault {
            if fired {
                o.count("faults_fired", 1);
                o.count(&format!("fault_{}", fault_tag(f)), 1);
            } else {
                o.count("faults_armed_not_reached", 1);
            }
        }
        let after = snapshot(&out_dir);
        o.count("invocations", 1);
        o.count(&format!("exit_{}", match code { Some(0) => "0".to_string(), Some(c) => format!("nonzero({c})"), None => "signal".into() }), 1);
        o.ev(format!(
            "[{label}] inv {i} exit={:?} files={} fault={}",
            code,
            after.len(),
            my_fault.as_ref().map(|f| format!("{}{}", fault_tag(f), if fired { "(fired)" } else { "" })).unwrap_or_else(|| "-".into())
        ));
        if !judge_it {
            res.final_snapshot = after;
            continue;
        }
        let env_fault = Fault::IsDir { which: 0 };
        let judged_fault = match (&my_fault, residue) {
            (Some(f), _) => Some(f),
            (None, true) => Some(&env_fault),
            (None, false) => None,
        };
        if my_fault.is_none() && residue {
            o.count("invocations_under_fault_residue", 1);
        }
        let verdict = judge(inv, judged_fault, fired, code, &stderr, &before, &after, &out_dir, &mut model, o);
        if let Err((mut class, detail)) = verdict {
            // distinct base names whose four output paths are not distinct: a class of its own,
            // so that the listed finding about them never hides another violation of that class
            let f = inv.files();
            let collide = (0..4).any(|a| (a + 1..4).any(|b| f[a] == f[b])) && inv.cert_base() != inv.ca_base();
            if collide && inv.invalid.is_none() && code == Some(0) && class == "c18-pem" && detail.contains("PEM label is") {
                class = "c18-output-paths-collide".to_string();
            }
            o.violate(&class, format!("[{label}] invocation {i} ({}): {detail}", inv.args(&out_arg.to_string_lossy()).join(" ")));
            break;
        }
        res.final_snapshot = after;
    }
    let _ = link_target;
    let _ = std::fs::remove_dir_all(&root);
    if t.pre.other_fs {
        let _ = std::fs::remove_dir_all(&shm_root);
    }
    res
}

/// Whether an unprivileged account can reach what an invocation needs at all: the tool, the
/// seam library and the scratch directory (checked once per process). Where the harness itself
/// lives in a place other accounts may not enter (a home directory, say), every unprivileged
/// invocation would fail for reasons that have nothing to do with the tool; such scenarios
/// then run under the harness's own identity.
fn unprivileged_can_reach(root: &Path, bin: &str) -> bool {
    static REACH: std::sync::OnceLock<bool> = std::sync::OnceLock::new();
    *REACH.get_or_init(|| {
        let parent = root.parent().unwrap_or(root);
        let mut need: Vec<std::ffi::OsString> = vec![bin.into()];
        if let Ok(shim) = std::env::var("CLISIM_SHIM") {
            need.push(shim.into());
        }
        let mut script = String::from("[ -d \"$1\" ] && [ -x \"$1\" ]");
        for k in 0..need.len() {
            script.push_str(&format!(" && [ -r \"${}\" ]", k + 2));
        }
        let mut c = Command::new("/usr/bin/setpriv");
        c.args(["--reuid=65534", "--regid=65534", "--clear-groups", "--", "/bin/sh", "-c", &script, "sh"]).arg(parent).args(&need);
        c.stdout(std::process::Stdio::null()).stderr(std::process::Stdio::null());
        matches!(c.status(), Ok(st) if st.success())
    })
}

fn is_root() -> bool {
    std::fs::metadata("/proc/self").map(|m| std::os::unix::fs::MetadataExt::uid(&m) == 0).unwrap_or(false)
}

/// chmod -R a+rwX (without following symlinks)
fn make_world_writable(p: &Path) {
    use std::os::unix::fs::PermissionsExt;
    let Ok(md) = std::fs::symlink_metadata(p) else { return };
    if md.file_type().is_symlink() {
        return;
    }
    if md.is_dir() {
        let _ = std::fs::set_permissions(p, std::fs::Permissions::from_mode(0o777));
        if let Ok(rd) = std::fs::read_dir(p) {
            for e in rd.flatten() {
                make_world_writable(&e.path());
            }
        }
    } else {
        let _ = std::fs::set_permissions(p, std::fs::Permissions::from_mode(0o666));
    }
}

fn fault_tag(f: &Fault) -> String {
    match f {
        Fault::Sys { kind, errno, .. } => format!("{kind}_{errno}"),
        Fault::DevFull { .. } => "target_symlink_dev_full".into(),
        Fault::IsDir { .. } => "target_is_directory".into(),
    }
}

type Fail = (String, String);
fn fail<T>(c: &str, d: String) -> Result<T, Fail> {
    Err((c.to_string(), d))
}

#[allow(clippy::too_many_arguments)]
fn judge(
    inv: &Invocation,
    fault: Option<&Fault>,
    _fired: bool,
    code: Option<i32>,
    stderr: &str,
    before: &BTreeMap<String, String>,
    after: &BTreeMap<String, String>,
    out_dir: &Path,
    model: &mut BTreeMap<String, Entry>,
    o: &mut Outcome,
) -> Result<(), Fail> {
    let files = inv.files();
    if inv.invalid.is_some() && fault.is_none() {
        // invalid options: non-zero exit, no panic, no output file
        o.count("invalid_option_invocations", 1);
        if code == Some(0) {
            return fail("c18-invalid-accepted", format!("exit status 0 for invalid options {:?}", inv.invalid));
        }
        if stderr.contains("panicked at") {
            return fail("c18-panic", format!("panicked on invalid options: {}", stderr.lines().take(3).collect::<Vec<_>>().join(" | ")));
        }
        if code.is_none() {
            return fail("c18-panic", "killed by a signal on invalid options".into());
        }
        if before != after {
            let new: Vec<_> = after.iter().filter(|(k, v)| before.get(*k) != Some(v)).map(|(k, _)| k.clone()).collect();
            return fail("c18-wrote-on-invalid", format!("invalid options {:?} but the output directory changed: {:?}", inv.invalid, new));
        }
        return Ok(());
    }
    if fault.is_some() {
        // any fault: only the implication exit 0 => everything valid
        if code != Some(0) {
            for f in &files {
                model.insert(f.clone(), Entry::Unknown);
            }
            // whatever else is in the directory is not judged under a fault
            for (k, v) in after {
                if !model.contains_key(k) {
                    model.insert(k.clone(), Entry::Fixed(v.clone()));
                }
            }
            o.count("faulted_invocations_failed_cleanly", 1);
            return Ok(());
        }
        o.count("faulted_invocations_exit0", 1);
    } else if code != Some(0) {
        return fail(
            "c18-valid-rejected",
            format!("exit status {:?} for valid options; stderr: {}", code, stderr.lines().take(3).collect::<Vec<_>>().join(" | ")),
        );
    }
    // exit 0: the four files exist, everything else is untouched
    for f in &files {
        match after.get(f) {
            None => return fail("c18-missing-file", format!("exit 0 but {f} does not exist")),
            Some(t) if t == "dir" => return fail("c18-missing-file", format!("exit 0 but {f} is a directory")),
            // never follow it: the target may be /dev/full, which reads as an endless stream of zeros
            Some(t) if t == "symlink" => {
                return fail("c18-missing-file", format!("exit 0 but {f} is still the symlink that was planted there: the data went elsewhere (or nowhere)"))
            }
            _ => {}
        }
    }
    for (name, tag) in after {
        if files.contains(name) {
            continue;
        }
        match model.get(name) {
            None => return fail("c18-unexpected-file", format!("unexpected entry {name} in the output directory")),
            Some(Entry::Fixed(h)) if h != tag => return fail("c18-unrelated-file-changed", format!("{name} changed although this invocation does not own it")),
            _ => {}
        }
    }
    for (name, entry) in model.iter() {
        if *entry != Entry::Unknown && !after.contains_key(name) {
            return fail("c18-unrelated-file-removed", format!("{name} disappeared"));
        }
    }
    let read = |f: &String| -> Result<String, Fail> {
        std::fs::read_to_string(out_dir.join(f)).map_err(|e| ("c18-unreadable-file".to_string(), format!("{f}: {e}")))
    };
    let ee_key = read(&files[0])?;
    let ee_cert = read(&files[1])?;
    let ca_key = read(&files[2])?;
    let ca_cert = read(&files[3])?;
    validate::check_pair(inv, &ee_key, &ee_cert, &ca_key, &ca_cert, o)?;
    for f in &files {
        model.insert(f.clone(), Entry::Fixed(after[f].clone()));
    }
    o.count("valid_outputs_fully_checked", 1);
    Ok(())
}

fn arg(args: &[String], name: &str) -> Option<String> {
    args.iter().position(|a| a == name).and_then(|i| args.get(i + 1).cloned())
}

fn main() {
    let args: Vec<String> = std::env::args().collect();
    if args.len() < 3 || args[1] != "cli-sim" {
        eprintln!("usage: clisim cli-sim <run|gen|exec|minimize> ...");
        std::process::exit(2);
    }
    engine::install_quiet_panic_hook();
    let a = &args[3..];
    let tier = if arg(a, "--tier").as_deref() == Some("thorough") { Tier::Thorough } else { Tier::Quick };
    let code = match args[2].as_str() {
        "run" => {
            let w = WorkerArgs {
                verif_seed: arg(a, "--seed").and_then(|s| s.parse().ok()).unwrap_or(20261003),
                from: arg(a, "--from").and_then(|s| s.parse().ok()).unwrap_or(0),
                to: arg(a, "--to").and_then(|s| s.parse().ok()).unwrap_or(10),
                stride: arg(a, "--stride").and_then(|s| s.parse().ok()).unwrap_or(1),
                offset: arg(a, "--offset").and_then(|s| s.parse().ok()).unwrap_or(0),
                tier,
                mode: arg(a, "--mode").unwrap_or_else(|| "mixed".into()),
                max_samples: 2,
                stop_on_violation: !a.iter().any(|x| x == "--keep-going"),
                isolate: false, // every invocation is a child process of its own already
                child_init: None,
            };
            engine::worker::<CliSim>(&w);
            0
        }
        "gen" => {
            let seed: u64 = arg(a, "--seed").and_then(|s| s.parse().ok()).unwrap_or(20261003);
            let i: u64 = arg(a, "--index").and_then(|s| s.parse().ok()).unwrap_or(0);
            let mode = arg(a, "--mode").unwrap_or_else(|| "mixed".into());
            let rs = simcore::prng::run_seed(seed, &format!("{}/{}", CliSim::NAME, mode), i);
            println!("{}", serde_json::json!({"trace": CliSim::generate(rs, i, tier, &mode)}));
            0
        }
        "exec" => engine::exec_file::<CliSim>(&arg(a, "--trace").expect("--trace"), a.iter().any(|x| x == "-v"), None),
        "minimize" => engine::minimize_file::<CliSim>(
            &arg(a, "--trace").expect("--trace"),
            &arg(a, "--out").expect("--out"),
            arg(a, "--budget").and_then(|s| s.parse().ok()).unwrap_or(30),
            false,
            None,
        ),
        _ => 2,
    };
    std::process::exit(code);
}
