//! Seam S1: the remote signer as the simulator plays it. Real crypto inside (OpenSSL),
//! simulated failure behaviour outside. Every call is logged with the exact bytes rcgen
//! handed over; a fault plan decides which global call index fails and how.

use std::collections::BTreeMap;
use std::sync::{Arc, Mutex};

use serde::{Deserialize, Serialize};

use crate::keys::{sig_alg, SimKey};

#[derive(Clone, Debug, PartialEq, Eq, Serialize, Deserialize)]
pub enum SignerFault {
    /// return Err(variant)
    Err(u8),
    /// return Ok(seeded bytes of this length) — used only for the verbatim-embedding oracle
    Opaque(u32),
    /// the signer's client library panics (unwinds through rcgen)
    Panic,
}

pub const ERR_VARIANTS: usize = 10;

pub fn make_error(i: u8) -> rcgen::Error {
    match i as usize % ERR_VARIANTS {
        0 => rcgen::Error::RemoteKeyError,
        1 => rcgen::Error::RingUnspecified,
        2 => rcgen::Error::RingKeyRejected("simulated HSM rejection".into()),
        3 => rcgen::Error::Time,
        4 => rcgen::Error::CouldNotParseKeyPair,
        5 => rcgen::Error::KeyGenerationUnavailable,
        6 => rcgen::Error::UnsupportedSignatureAlgorithm,
        7 => rcgen::Error::UnsupportedInCsr,
        8 => rcgen::Error::InvalidCrlNextUpdate,
        _ => rcgen::Error::CouldNotParseCertificate,
    }
}

#[derive(Clone, Debug)]
pub struct SignCall {
    /// global index of this sign call within the run (0-based)
    pub seq: usize,
    pub slot: usize,
    pub msg: Vec<u8>,
    /// what the signer returned: Ok(bytes) or Err(variant)
    pub ret: Result<Vec<u8>, u8>,
    pub opaque: bool,
}

#[derive(Default)]
pub struct BusState {
    pub calls: Vec<SignCall>,
    pub plan: BTreeMap<usize, SignerFault>,
    pub public_key_calls: usize,
    pub faults_fired_err: usize,
    pub faults_fired_opaque: usize,
}

/// Shared by all signers of a run.
#[derive(Clone, Default)]
pub struct Bus(pub Arc<Mutex<BusState>>);

impl Bus {
    pub fn new(plan: BTreeMap<usize, SignerFault>) -> Bus {
        Bus(Arc::new(Mutex::new(BusState { plan, ..Default::default() })))
    }
    pub fn n_calls(&self) -> usize {
        self.0.lock().unwrap().calls.len()
    }
    pub fn calls_since(&self, from: usize) -> Vec<SignCall> {
        self.0.lock().unwrap().calls[from..].to_vec()
    }
}

pub type SeamHook = Arc<dyn Fn(usize, bool) + Send + Sync>;

thread_local! {
    /// What the signer's own client code does with rcgen while it is being asked for a
    /// signature (a KMS proxy that issues itself a short-lived client certificate, say):
    /// taken and run once by the next `sign` call on this thread.
    pub static NESTED: std::cell::RefCell<Option<Box<dyn FnOnce()>>> = const { std::cell::RefCell::new(None) };
}

pub struct SimSigner {
    pub slot: usize,
    pub key: Arc<SimKey>,
    pub bus: Bus,
    /// called on entry (false) and exit (true) of `sign`; the shuttle engine yields here
    pub hook: Option<SeamHook>,
}

impl rcgen::RemoteKeyPair for SimSigner {
    fn public_key(&self) -> &[u8] {
        self.bus.0.lock().unwrap().public_key_calls += 1;
        &self.key.raw_pub
    }

    fn sign(&self, msg: &[u8]) -> Result<Vec<u8>, rcgen::Error> {
        if let Some(h) = &self.hook {
            h(self.slot, false);
        }
        if let Some(f) = NESTED.with(|n| n.borrow_mut().take()) {
            f();
        }
        let (seq, fault) = {
            let mut st = self.bus.0.lock().unwrap();
            let seq = st.calls.len();
            let fault = st.plan.get(&seq).cloned();
            // reserve the slot so concurrent callers get distinct indices
            st.calls.push(SignCall { seq, slot: self.slot, msg: msg.to_vec(), ret: Err(255), opaque: false });
            (seq, fault)
        };
        let (ret, opaque) = match fault {
            Some(SignerFault::Err(v)) => (Err(v), false),
            Some(SignerFault::Opaque(n)) => {
                let mut r = simcore::Rng::new(0x0badc0de ^ seq as u64 ^ ((n as u64) << 20));
                let mut b = r.bytes(n as usize);
                // signatures are opaque to rcgen whatever they look like: values that resemble
                // DER, padding or emptiness must be embedded verbatim too
                let n = n as usize;
                match (seq + n) % 7 {
                    1 if n >= 3 => {
                        b[0] = 0x30;
                        b[1] = (n as u8).wrapping_sub(if n % 2 == 0 { 2 } else { 9 });
                        b[2] = 0x02;
                    }
                    2 => b.iter_mut().for_each(|x| *x = 0),
                    3 => b.iter_mut().for_each(|x| *x = 0xff),
                    4 if n >= 8 => b[n / 2..].iter_mut().for_each(|x| *x = 0),
                    5 if n >= 2 => {
                        b[0] = 0;
                        b[1] = 0;
                    }
                    6 if n >= 4 => {
                        b[0] = 0x30;
                        b[1] = 0x82;
                        b[2] = 0x00;
                        b[3] = 0x02;
                    }
                    _ => {}
                }
                (Ok(b), true)
            }
            Some(SignerFault::Panic) => {
                self.bus.0.lock().unwrap().calls[seq].ret = Err(254);
                panic!("simulated HSM client library panic");
            }
            None => (Ok(self.key.sign(msg)), false),
        };
        {
            let mut st = self.bus.0.lock().unwrap();
            st.calls[seq].ret = ret.clone();
            st.calls[seq].opaque = opaque;
            match (&ret, opaque) {
                (Err(_), _) => st.faults_fired_err += 1,
                (Ok(_), true) => st.faults_fired_opaque += 1,
                _ => {}
            }
        }
        if let Some(h) = &self.hook {
            h(self.slot, true);
        }
        ret.map_err(make_error)
    }

    fn algorithm(&self) -> &'static rcgen::SignatureAlgorithm {
        // Half of the simulated HSMs are configured by OID (the key's own bytes decide which):
        // they look their algorithm up with `SignatureAlgorithm::from_oid`, as a KMS client
        // that only knows the key's registered identifier would.
        if self.key.raw_pub.iter().fold(0u8, |a, b| a ^ b) & 1 == 1 {
            if let Ok(a) = rcgen::SignatureAlgorithm::from_oid(self.key.alg.sig_oid_arcs()) {
                return a;
            }
        }
        sig_alg(self.key.alg)
    }
}

pub fn remote_key_pair(slot: usize, key: Arc<SimKey>, bus: Bus, hook: Option<SeamHook>) -> rcgen::KeyPair {
    rcgen::KeyPair::from_remote(Box::new(SimSigner { slot, key, bus, hook })).expect("from_remote")
}
