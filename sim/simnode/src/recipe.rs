//! Explicit, serialisable descriptions of everything a run feeds into rcgen, a seeded
//! generator for them, and the builders that turn them into rcgen values. Execution,
//! minimisation and replay consume recipes, never the PRNG.
//!
//! The generator stays inside the set of values on which rcgen returns Ok or Err
//! (DESIGN §3.7): ASCII in IA5-typed `String` fields, legal OIDs, non-empty serials,
//! UTC times in years 1000..=9998.

use rcgen::string::{BmpString, Ia5String, PrintableString, TeletexString, UniversalString};
use rcgen::{
    BasicConstraints, CertificateParams, CertificateRevocationListParams, CidrSubnet, CrlDistributionPoint,
    CrlIssuingDistributionPoint, CrlScope, CustomExtension, DistinguishedName, DnType, DnValue, ExtendedKeyUsagePurpose,
    GeneralSubtree, IsCa, KeyIdMethod, KeyUsagePurpose, NameConstraints, OtherNameValue, RevocationReason, RevokedCertParams,
    SanType, SerialNumber,
};
use serde::{Deserialize, Serialize};
use simcore::Rng;
use time::OffsetDateTime;

#[derive(Clone, Debug, PartialEq, Eq, Hash, Serialize, Deserialize)]
pub enum DnTypeR {
    Country,
    Locality,
    State,
    Org,
    OrgUnit,
    Cn,
    Custom(Vec<u64>),
}

impl DnTypeR {
    pub fn build(&self) -> DnType {
        match self {
            DnTypeR::Country => DnType::CountryName,
            DnTypeR::Locality => DnType::LocalityName,
            DnTypeR::State => DnType::StateOrProvinceName,
            DnTypeR::Org => DnType::OrganizationName,
            DnTypeR::OrgUnit => DnType::OrganizationalUnitName,
            DnTypeR::Cn => DnType::CommonName,
            DnTypeR::Custom(v) => DnType::CustomDnType(v.clone()),
        }
    }
    /// OID from an independent table (RFC 5280 appendix A), not from rcgen.
    pub fn oid(&self) -> Vec<u64> {
        match self {
            DnTypeR::Country => vec![2, 5, 4, 6],
            DnTypeR::Locality => vec![2, 5, 4, 7],
            DnTypeR::State => vec![2, 5, 4, 8],
            DnTypeR::Org => vec![2, 5, 4, 10],
            DnTypeR::OrgUnit => vec![2, 5, 4, 11],
            DnTypeR::Cn => vec![2, 5, 4, 3],
            DnTypeR::Custom(v) => v.clone(),
        }
    }
    pub fn from_rcgen(t: &DnType) -> DnTypeR {
        match t {
            DnType::CountryName => DnTypeR::Country,
            DnType::LocalityName => DnTypeR::Locality,
            DnType::StateOrProvinceName => DnTypeR::State,
            DnType::OrganizationName => DnTypeR::Org,
            DnType::OrganizationalUnitName => DnTypeR::OrgUnit,
            DnType::CommonName => DnTypeR::Cn,
            DnType::CustomDnType(v) => DnTypeR::Custom(v.clone()),
            _ => DnTypeR::Custom(vec![]),
        }
    }
}

#[derive(Clone, Debug, PartialEq, Eq, Hash, Serialize, Deserialize)]
pub enum DnValueR {
    Bmp(String),
    Ia5(String),
    Printable(String),
    Teletex(String),
    Universal(String),
    Utf8(String),
}

impl DnValueR {
    pub fn build(&self) -> DnValue {
        match self {
            DnValueR::Bmp(s) => DnValue::BmpString(BmpString::try_from(s.as_str()).expect("recipe: bmp")),
            DnValueR::Ia5(s) => DnValue::Ia5String(Ia5String::try_from(s.as_str()).expect("recipe: ia5")),
            DnValueR::Printable(s) => {
                DnValue::PrintableString(PrintableString::try_from(s.as_str()).expect("recipe: printable"))
            }
            DnValueR::Teletex(s) => DnValue::TeletexString(TeletexString::try_from(s.as_str()).expect("recipe: teletex")),
            DnValueR::Universal(s) => {
                DnValue::UniversalString(UniversalString::try_from(s.as_str()).expect("recipe: universal"))
            }
            DnValueR::Utf8(s) => DnValue::Utf8String(s.clone()),
        }
    }
    /// (universal tag, content octets) as X.680/X.690 prescribe, computed independently.
    pub fn wire(&self) -> (u8, Vec<u8>) {
        match self {
            DnValueR::Bmp(s) => (0x1e, s.encode_utf16().flat_map(|u| u.to_be_bytes()).collect()),
            DnValueR::Ia5(s) => (0x16, s.as_bytes().to_vec()),
            DnValueR::Printable(s) => (0x13, s.as_bytes().to_vec()),
            DnValueR::Teletex(s) => (0x14, s.as_bytes().to_vec()),
            DnValueR::Universal(s) => (0x1c, s.chars().flat_map(|c| (c as u32).to_be_bytes()).collect()),
            DnValueR::Utf8(s) => (0x0c, s.as_bytes().to_vec()),
        }
    }
    pub fn from_rcgen(v: &DnValue) -> DnValueR {
        match v {
            DnValue::BmpString(b) => {
                let u: Vec<u16> = b.as_bytes().chunks(2).map(|c| u16::from_be_bytes([c[0], c[1]])).collect();
                DnValueR::Bmp(String::from_utf16_lossy(&u))
            }
            DnValue::Ia5String(s) => DnValueR::Ia5(s.as_str().to_string()),
            DnValue::PrintableString(s) => DnValueR::Printable(s.as_str().to_string()),
            DnValue::TeletexString(s) => DnValueR::Teletex(s.as_str().to_string()),
            DnValue::UniversalString(b) => DnValueR::Universal(
                b.as_bytes()
                    .chunks(4)
                    .map(|c| char::from_u32(u32::from_be_bytes([c[0], c[1], c[2], c[3]])).unwrap_or('\u{fffd}'))
                    .collect(),
            ),
            DnValue::Utf8String(s) => DnValueR::Utf8(s.clone()),
            _ => DnValueR::Utf8(String::from("<unknown DnValue kind>")),
        }
    }
}

/// A name as the edit history that builds it: `Some(value)` is a push, `None` a remove.
#[derive(Clone, Debug, PartialEq, Eq, Default, Serialize, Deserialize)]
pub struct DnRecipe(pub Vec<(DnTypeR, Option<DnValueR>)>);

impl DnRecipe {
    pub fn build(&self) -> DistinguishedName {
        let mut dn = DistinguishedName::new();
        for (t, v) in &self.0 {
            match v {
                Some(v) => dn.push(t.build(), v.build()),
                None => {
                    dn.remove(t.build());
                }
            }
        }
        dn
    }
    /// The list an insertion-ordered map must hold after this history.
    pub fn model(&self) -> Vec<(DnTypeR, DnValueR)> {
        let mut out: Vec<(DnTypeR, DnValueR)> = Vec::new();
        for (t, v) in &self.0 {
            match v {
                Some(v) => {
                    if let Some(e) = out.iter_mut().find(|(tt, _)| tt == t) {
                        e.1 = v.clone();
                    } else {
                        out.push((t.clone(), v.clone()));
                    }
                }
                None => out.retain(|(tt, _)| tt != t),
            }
        }
        out
    }
}

#[derive(Clone, Debug, PartialEq, Eq, Serialize, Deserialize)]
pub enum SanR {
    Email(String),
    Dns(String),
    Uri(String),
    Ip4([u8; 4]),
    Ip6([u8; 16]),
    Other(Vec<u64>, String),
}

impl SanR {
    pub fn build(&self) -> SanType {
        match self {
            SanR::Email(s) => SanType::Rfc822Name(Ia5String::try_from(s.as_str()).expect("recipe: email")),
            SanR::Dns(s) => SanType::DnsName(Ia5String::try_from(s.as_str()).expect("recipe: dns")),
            SanR::Uri(s) => SanType::URI(Ia5String::try_from(s.as_str()).expect("recipe: uri")),
            SanR::Ip4(o) => SanType::IpAddress(std::net::IpAddr::from(*o)),
            SanR::Ip6(o) => SanType::IpAddress(std::net::IpAddr::from(*o)),
            SanR::Other(oid, s) => SanType::OtherName((oid.clone(), OtherNameValue::Utf8String(s.clone()))),
        }
    }
}

#[derive(Clone, Debug, PartialEq, Eq, Serialize, Deserialize)]
pub enum IsCaR {
    No,
    ExplicitNo,
    Ca(Option<u8>),
}

#[derive(Clone, Debug, PartialEq, Eq, Serialize, Deserialize)]
pub enum KidR {
    Sha256,
    Sha384,
    Sha512,
    Pre(#[serde(with = "simcore::hexbytes")] Vec<u8>),
}

impl KidR {
    pub fn build(&self) -> KeyIdMethod {
        match self {
            #[cfg(feature = "crypto")]
            KidR::Sha256 => KeyIdMethod::Sha256,
            #[cfg(feature = "crypto")]
            KidR::Sha384 => KeyIdMethod::Sha384,
            #[cfg(feature = "crypto")]
            KidR::Sha512 => KeyIdMethod::Sha512,
            #[cfg(not(feature = "crypto"))]
            KidR::Sha256 | KidR::Sha384 | KidR::Sha512 => panic!("recipe: hashed key id on a crypto-less node"),
            KidR::Pre(v) => KeyIdMethod::PreSpecified(v.clone()),
        }
    }
}

#[derive(Clone, Debug, PartialEq, Eq, Serialize, Deserialize)]
pub enum SubtreeR {
    Email(String),
    Dns(String),
    Dir(DnRecipe),
    Ip4([u8; 4], u8),
    Ip6([u8; 16], u8),
}

impl SubtreeR {
    pub fn build(&self) -> GeneralSubtree {
        match self {
            SubtreeR::Email(s) => GeneralSubtree::Rfc822Name(s.clone()),
            SubtreeR::Dns(s) => GeneralSubtree::DnsName(s.clone()),
            SubtreeR::Dir(d) => GeneralSubtree::DirectoryName(d.build()),
            SubtreeR::Ip4(a, p) => GeneralSubtree::IpAddress(CidrSubnet::from_v4_prefix(*a, *p)),
            SubtreeR::Ip6(a, p) => GeneralSubtree::IpAddress(CidrSubnet::from_v6_prefix(*a, *p)),
        }
    }
}

#[derive(Clone, Debug, PartialEq, Eq, Serialize, Deserialize)]
pub enum EkuR {
    Any,
    Server,
    Client,
    Code,
    Email,
    Time,
    Ocsp,
    Other(Vec<u64>),
}

impl EkuR {
    pub fn build(&self) -> ExtendedKeyUsagePurpose {
        match self {
            EkuR::Any => ExtendedKeyUsagePurpose::Any,
            EkuR::Server => ExtendedKeyUsagePurpose::ServerAuth,
            EkuR::Client => ExtendedKeyUsagePurpose::ClientAuth,
            EkuR::Code => ExtendedKeyUsagePurpose::CodeSigning,
            EkuR::Email => ExtendedKeyUsagePurpose::EmailProtection,
            EkuR::Time => ExtendedKeyUsagePurpose::TimeStamping,
            EkuR::Ocsp => ExtendedKeyUsagePurpose::OcspSigning,
            EkuR::Other(v) => ExtendedKeyUsagePurpose::Other(v.clone()),
        }
    }
}

pub const KEY_USAGES: [KeyUsagePurpose; 9] = [
    KeyUsagePurpose::DigitalSignature,
    KeyUsagePurpose::ContentCommitment,
    KeyUsagePurpose::KeyEncipherment,
    KeyUsagePurpose::DataEncipherment,
    KeyUsagePurpose::KeyAgreement,
    KeyUsagePurpose::KeyCertSign,
    KeyUsagePurpose::CrlSign,
    KeyUsagePurpose::EncipherOnly,
    KeyUsagePurpose::DecipherOnly,
];

#[derive(Clone, Debug, PartialEq, Eq, Serialize, Deserialize)]
pub struct ExtR {
    pub oid: Vec<u64>,
    pub critical: bool,
    #[serde(with = "simcore::hexbytes")]
    pub content: Vec<u8>,
}

#[derive(Clone, Debug, PartialEq, Eq, Serialize, Deserialize)]
pub struct CertRecipe {
    pub not_before: i64,
    pub not_after: i64,
    pub nanos: u32,
    /// UTC offset (minutes) the validity times are expressed in; the instants stay the same
    #[serde(default)]
    pub offset_min: i16,
    pub serial: Option<String>, // hex
    pub sans: Vec<SanR>,
    pub dn: DnRecipe,
    pub is_ca: IsCaR,
    pub key_usages: Vec<u8>,
    pub ekus: Vec<EkuR>,
    pub name_constraints: Option<(Vec<SubtreeR>, Vec<SubtreeR>)>,
    pub crl_dps: Vec<Vec<String>>,
    pub custom_exts: Vec<ExtR>,
    pub use_aki: bool,
    pub kid: KidR,
}

pub fn ts(secs: i64, nanos: u32) -> OffsetDateTime {
    OffsetDateTime::from_unix_timestamp_nanos(secs as i128 * 1_000_000_000 + nanos as i128).expect("recipe: timestamp")
}

impl CertRecipe {
    pub fn build(&self) -> CertificateParams {
        let mut p = CertificateParams::default();
        let off = time::UtcOffset::from_whole_seconds(self.offset_min as i32 * 60).expect("recipe: offset");
        p.not_before = ts(self.not_before, self.nanos).to_offset(off);
        p.not_after = ts(self.not_after, 0).to_offset(off);
        p.serial_number = self.serial.as_ref().map(|h| SerialNumber::from_slice(&simcore::sha256::unhex(h).expect("hex")));
        p.subject_alt_names = self.sans.iter().map(|s| s.build()).collect();
        p.distinguished_name = self.dn.build();
        p.is_ca = match &self.is_ca {
            IsCaR::No => IsCa::NoCa,
            IsCaR::ExplicitNo => IsCa::ExplicitNoCa,
            IsCaR::Ca(None) => IsCa::Ca(BasicConstraints::Unconstrained),
            IsCaR::Ca(Some(n)) => IsCa::Ca(BasicConstraints::Constrained(*n)),
        };
        p.key_usages = self.key_usages.iter().map(|i| KEY_USAGES[*i as usize]).collect();
        p.extended_key_usages = self.ekus.iter().map(|e| e.build()).collect();
        p.name_constraints = self.name_constraints.as_ref().map(|(a, b)| NameConstraints {
            permitted_subtrees: a.iter().map(|s| s.build()).collect(),
            excluded_subtrees: b.iter().map(|s| s.build()).collect(),
        });
        p.crl_distribution_points = self.crl_dps.iter().map(|u| CrlDistributionPoint { uris: u.clone() }).collect();
        p.custom_extensions = self
            .custom_exts
            .iter()
            .map(|e| {
                let mut x = CustomExtension::from_oid_content(&e.oid, e.content.clone());
                x.set_criticality(e.critical);
                x
            })
            .collect();
        p.use_authority_key_identifier_extension = self.use_aki;
        p.key_identifier_method = self.kid.build();
        p
    }
    /// True when `serialize_request` must refuse (the documented rule).
    pub fn unsupported_in_csr(&self) -> bool {
        self.serial.is_some()
            || self.is_ca != IsCaR::No
            || self.name_constraints.is_some()
            || !self.crl_dps.is_empty()
            || self.use_aki
    }
}

#[derive(Clone, Debug, PartialEq, Eq, Serialize, Deserialize)]
pub struct RevokedR {
    pub serial: String,
    pub time: i64,
    pub reason: Option<u8>,
    pub invalidity: Option<i64>,
}

#[derive(Clone, Debug, PartialEq, Eq, Serialize, Deserialize)]
pub struct CrlRecipe {
    pub this_update: i64,
    pub next_update: i64,
    pub crl_number: String,
    pub idp: Option<(Vec<String>, Option<u8>)>,
    pub revoked: Vec<RevokedR>,
    pub kid: KidR,
}

pub const REASONS: [RevocationReason; 10] = [
    RevocationReason::Unspecified,
    RevocationReason::KeyCompromise,
    RevocationReason::CaCompromise,
    RevocationReason::AffiliationChanged,
    RevocationReason::Superseded,
    RevocationReason::CessationOfOperation,
    RevocationReason::CertificateHold,
    RevocationReason::RemoveFromCrl,
    RevocationReason::PrivilegeWithdrawn,
    RevocationReason::AaCompromise,
];

impl CrlRecipe {
    pub fn build(&self) -> CertificateRevocationListParams {
        CertificateRevocationListParams {
            this_update: ts(self.this_update, 0),
            next_update: ts(self.next_update, 0),
            crl_number: SerialNumber::from_slice(&simcore::sha256::unhex(&self.crl_number).expect("hex")),
            issuing_distribution_point: self.idp.as_ref().map(|(uris, scope)| CrlIssuingDistributionPoint {
                distribution_point: CrlDistributionPoint { uris: uris.clone() },
                scope: scope.map(|s| if s == 0 { CrlScope::UserCertsOnly } else { CrlScope::CaCertsOnly }),
            }),
            revoked_certs: self
                .revoked
                .iter()
                .map(|r| RevokedCertParams {
                    serial_number: SerialNumber::from_slice(&simcore::sha256::unhex(&r.serial).expect("hex")),
                    revocation_time: ts(r.time, 0),
                    reason_code: r.reason.map(|i| REASONS[i as usize]),
                    invalidity_date: r.invalidity.map(|t| ts(t, 0)),
                })
                .collect(),
            key_identifier_method: self.kid.build(),
        }
    }
    /// Field-by-field comparison (the rcgen type has no PartialEq).
    pub fn matches(&self, p: &CertificateRevocationListParams) -> bool {
        let e = self.build();
        e.this_update == p.this_update
            && e.next_update == p.next_update
            && e.crl_number == p.crl_number
            && e.key_identifier_method == p.key_identifier_method
            && match (&e.issuing_distribution_point, &p.issuing_distribution_point) {
                (None, None) => true,
                (Some(a), Some(b)) => a.distribution_point == b.distribution_point && a.scope == b.scope,
                _ => false,
            }
            && e.revoked_certs.len() == p.revoked_certs.len()
            && e.revoked_certs.iter().zip(p.revoked_certs.iter()).all(|(a, b)| {
                a.serial_number == b.serial_number
                    && a.revocation_time == b.revocation_time
                    && a.reason_code == b.reason_code
                    && a.invalidity_date == b.invalidity_date
            })
    }
}

/// CSR attributes need `&'static [u64]` OIDs, so they come from a fixed table.
pub static ATTR_OIDS: [&[u64]; 3] =
    [&[1, 2, 840, 113549, 1, 9, 7], &[1, 2, 840, 113549, 1, 9, 2], &[1, 3, 6, 1, 4, 1, 55555, 1, 1]];

#[derive(Clone, Debug, PartialEq, Eq, Serialize, Deserialize)]
pub struct AttrR {
    pub oid_idx: u8,
    pub text: String,
}

impl AttrR {
    pub fn build(&self) -> rcgen::Attribute {
        // SET { UTF8String text }, encoded by hand
        let inner = tlv(0x0c, self.text.as_bytes());
        rcgen::Attribute { oid: ATTR_OIDS[self.oid_idx as usize], values: tlv(0x31, &inner) }
    }
}

/// Minimal DER encoder for the few values recipes need (extension contents, attributes).
pub fn tlv(tag: u8, content: &[u8]) -> Vec<u8> {
    let mut v = vec![tag];
    let n = content.len();
    if n < 0x80 {
        v.push(n as u8);
    } else {
        let be = n.to_be_bytes();
        let skip = be.iter().take_while(|b| **b == 0).count();
        v.push(0x80 | (be.len() - skip) as u8);
        v.extend_from_slice(&be[skip..]);
    }
    v.extend_from_slice(content);
    v
}

// ---------------------------------------------------------------------------------------
// Seeded generation (swarm style: each run enables a random subset of fields and sizes)
// ---------------------------------------------------------------------------------------

/// Which optional features a run's recipes may use.
#[derive(Clone, Debug, Serialize, Deserialize)]
pub struct Swarm {
    pub sans: bool,
    pub wide_dn: bool,
    pub exts: bool,
    pub constraints: bool,
    pub big: bool,
    pub hashed_kid: bool,
    pub auto_serial: bool,
}

impl Swarm {
    pub fn draw(r: &mut Rng, crypto: bool) -> Swarm {
        Swarm {
            sans: r.chance(3, 4),
            wide_dn: r.chance(2, 3),
            exts: r.chance(2, 3),
            constraints: r.chance(1, 2),
            big: r.chance(1, 6),
            hashed_kid: crypto && r.chance(3, 4),
            auto_serial: crypto && r.chance(3, 4),
        }
    }
}

const PRINTABLE: &[u8] = b"ABCDEFGHIJKLMNOPQRSTUVWXYZabcdefghijklmnopqrstuvwxyz0123456789 '()+,-./:=?";
const HOSTCH: &[u8] = b"abcdefghijklmnopqrstuvwxyz0123456789-";
const UNI: [char; 12] = ['a', 'Z', '7', ' ', 'é', 'ß', 'Ω', 'ж', '中', '日', '\u{fffd}', '€'];
const ASTRAL: [char; 3] = ['😀', '𝔘', '\u{10ffff}'];

fn s_from(r: &mut Rng, alphabet: &[u8], lo: usize, hi: usize) -> String {
    let n = r.range(lo as u64, hi as u64) as usize;
    (0..n).map(|_| *r.pick(alphabet) as char).collect()
}

pub fn gen_host(r: &mut Rng) -> String {
    let labels = r.range(1, 3);
    let mut v = Vec::new();
    for _ in 0..labels {
        let mut l = s_from(r, &HOSTCH[..36], 1, 8);
        if r.chance(1, 4) {
            l.push('-');
            l.push_str(&s_from(r, &HOSTCH[..36], 1, 3));
        }
        v.push(l);
    }
    let mut h = v.join(".");
    // never something an IP parser could accept
    if h.chars().all(|c| c.is_ascii_digit() || c == '.') {
        h.push_str(".example");
    }
    h
}

pub fn gen_oid(r: &mut Rng) -> Vec<u64> {
    let a0 = r.below(3);
    let a1 = if a0 < 2 { r.below(40) } else { r.below(200) };
    let mut v = vec![a0, a1];
    for _ in 0..r.range(0, 6) {
        v.push(match r.below(4) {
            0 => r.below(128),
            1 => r.below(16384),
            2 => r.below(1 << 32),
            _ => r.next_u64() >> r.below(40),
        });
    }
    v
}

/// Lengths at which DER length forms and common size limits change.
const EDGE_LENS: [usize; 12] = [0, 1, 2, 63, 64, 65, 127, 128, 129, 255, 256, 257];

pub fn gen_dn_value(r: &mut Rng, maxlen: usize) -> DnValueR {
    // one value in sixteen sits on a length boundary, whatever the caller's bound
    let maxlen = if r.chance(1, 16) { *r.pick(&EDGE_LENS) } else { maxlen };
    let exact = maxlen > 24;
    let len = |r: &mut Rng| if exact { maxlen } else { r.range(0, maxlen as u64) as usize };
    match r.below(6) {
        0 => {
            let n = len(r);
            DnValueR::Bmp((0..n).map(|_| *r.pick(&UNI)).collect())
        }
        1 => {
            let n = len(r);
            DnValueR::Ia5((0..n).map(|_| r.below(128) as u8 as char).collect())
        }
        2 => {
            let n = len(r);
            DnValueR::Printable(s_from(r, PRINTABLE, n, n))
        }
        3 => {
            let n = len(r);
            DnValueR::Teletex((0..n).map(|_| r.range(0x20, 0x7f) as u8 as char).collect())
        }
        4 => {
            let n = len(r);
            DnValueR::Universal((0..n).map(|_| if r.chance(1, 5) { *r.pick(&ASTRAL) } else { *r.pick(&UNI) }).collect())
        }
        _ => {
            let n = len(r);
            if r.chance(1, 3) {
                // what `push(ty, "text")` produces for ordinary input: a UTF8String of plain ASCII
                return DnValueR::Utf8(s_from(r, PRINTABLE, n, n));
            }
            DnValueR::Utf8((0..n).map(|_| if r.chance(1, 8) { *r.pick(&ASTRAL) } else { *r.pick(&UNI) }).collect())
        }
    }
}

/// Registered attribute types that rcgen has no enum variant for; callers reach them only as
/// custom types. Several have a syntax of their own in RFC 5280 / 4519 (IA5String, PrintableString).
pub const REGISTERED_TYPES: [&[u64]; 10] = [
    &[1, 2, 840, 113549, 1, 9, 1],            // emailAddress
    &[0, 9, 2342, 19200300, 100, 1, 25],      // domainComponent
    &[0, 9, 2342, 19200300, 100, 1, 1],       // userId
    &[2, 5, 4, 5],                            // serialNumber
    &[2, 5, 4, 12],                           // title
    &[2, 5, 4, 4],                            // surname
    &[2, 5, 4, 42],                           // givenName
    &[2, 5, 4, 46],                           // dnQualifier
    &[1, 2, 840, 113549, 1, 9, 2],            // unstructuredName
    &[1, 3, 6, 1, 4, 1, 311, 60, 2, 1, 3],    // jurisdictionOfIncorporationCountryName
];

pub const STD_TYPES: [DnTypeR; 6] =
    [DnTypeR::Country, DnTypeR::Locality, DnTypeR::State, DnTypeR::Org, DnTypeR::OrgUnit, DnTypeR::Cn];

pub fn gen_dn_type(r: &mut Rng) -> DnTypeR {
    match r.below(10) {
        0..=5 => STD_TYPES[r.usize(6)].clone(),
        // custom types whose OID collides with a standard one: distinct keys, same wire OID
        6 => DnTypeR::Custom(STD_TYPES[r.usize(6)].oid()),
        7 => DnTypeR::Custom(vec![2, 5, 4, r.range(1, 60)]),
        8 => DnTypeR::Custom(r.pick(&REGISTERED_TYPES).to_vec()),
        _ => DnTypeR::Custom(gen_oid(r)),
    }
}

pub fn gen_dn(r: &mut Rng, wide: bool) -> DnRecipe {
    let n = if wide { r.range(0, 8) } else { r.range(1, 3) } as usize;
    let mut v: Vec<(DnTypeR, Option<DnValueR>)> = Vec::new();
    for _ in 0..n {
        let t = if wide { gen_dn_type(r) } else { STD_TYPES[r.usize(6)].clone() };
        let val = if wide { gen_dn_value(r, 24) } else { DnValueR::Utf8(s_from(r, PRINTABLE, 1, 12)) };
        v.push((t, Some(val)));
        // names are also built by editing: remove an earlier attribute, sometimes put it back
        if wide && v.len() >= 2 && r.chance(1, 5) {
            let k = r.usize(v.len());
            let ty = v[k].0.clone();
            v.push((ty.clone(), None));
            if r.chance(1, 2) {
                v.push((ty, Some(gen_dn_value(r, 12))));
            }
        }
    }
    DnRecipe(v)
}

fn gen_uri(r: &mut Rng) -> String {
    format!("{}://{}/{}", r.pick(&["http", "https", "ldap"]), gen_host(r), s_from(r, &HOSTCH[..36], 0, 10))
}

pub fn gen_san(r: &mut Rng) -> SanR {
    match r.below(6) {
        0 => SanR::Email(format!("{}@{}", s_from(r, &HOSTCH[..36], 1, 8), gen_host(r))),
        1 => SanR::Dns(gen_host(r)),
        2 => SanR::Uri(gen_uri(r)),
        3 => {
            let b = r.bytes(4);
            SanR::Ip4([b[0], b[1], b[2], b[3]])
        }
        4 => {
            let b = r.bytes(16);
            let mut a = [0u8; 16];
            a.copy_from_slice(&b);
            SanR::Ip6(a)
        }
        _ => SanR::Other(gen_oid(r), s_from(r, PRINTABLE, 0, 16)),
    }
}

fn gen_subtree(r: &mut Rng) -> SubtreeR {
    match r.below(5) {
        0 => SubtreeR::Email(format!("{}@{}", s_from(r, &HOSTCH[..36], 1, 6), gen_host(r))),
        1 => SubtreeR::Dns(gen_host(r)),
        2 => {
            let wide = r.bool();
            SubtreeR::Dir(gen_dn(r, wide))
        }
        3 => {
            let b = r.bytes(4);
            SubtreeR::Ip4([b[0], b[1], b[2], b[3]], r.range(0, 32) as u8)
        }
        _ => {
            let b = r.bytes(16);
            let mut a = [0u8; 16];
            a.copy_from_slice(&b);
            SubtreeR::Ip6(a, r.range(0, 128) as u8)
        }
    }
}

fn gen_serial_hex(r: &mut Rng) -> String {
    let n = if r.chance(1, 4) { *r.pick(&[1usize, 8, 16, 19, 20]) } else { r.range(1, 20) as usize };
    let mut b = r.bytes(n);
    match r.below(6) {
        0 => b[0] = 0,
        1 => b[0] |= 0x80,
        2 => b[0] = 0x7f,
        _ => {}
    }
    simcore::sha256::hex(&b)
}

/// Seconds since the epoch for a UTC instant in a seeded era.
pub fn gen_time(r: &mut Rng) -> i64 {
    // 1950-01-01 = -631152000, 2050-01-01 = 2524608000, 1000-01-01 = -30610224000, 9998-12-31 = 253370678400
    match r.below(10) {
        0..=5 => r.range(0, 2524608000u64 + 631152000 - 1) as i64 - 631152000, // UTCTime era
        6 => *r.pick(&[
            -631152000i64, // 1950-01-01 00:00:00
            -631152001,    // 1949-12-31 23:59:59
            2524607999,    // 2049-12-31 23:59:59
            2524608000,    // 2050-01-01 00:00:00
            0,
            946684800,    // 2000-01-01
            951782400,    // 2000-02-29
            951868799,    // 2000-02-29 23:59:59
            1709251199,   // 2024-02-29 23:59:59
            4107542400,   // 2100-03-01 (2100 is no leap year)
            1483228799,   // 2016-12-31 23:59:59 (a leap-second day)
            -1,           // 1969-12-31 23:59:59
            253370678400, // 9998-12-31
        ]), // boundaries
        7 | 8 => 2524608000 + r.below(253370678400 - 2524608000) as i64,
        _ => -30610224000 + r.below(30610224000 - 631152000) as i64,
    }
}

fn gen_ext_content(r: &mut Rng, big: bool) -> Vec<u8> {
    let n = if big {
        *r.pick(&[100usize, 127, 128, 200, 255, 256, 1000, 65400, 65535, 65536, 70000])
    } else {
        r.range(0, 40) as usize
    };
    match r.below(3) {
        0 => tlv(0x04, &r.bytes(n)),
        1 => tlv(0x0c, s_from(r, PRINTABLE, n, n).as_bytes()),
        _ => tlv(0x30, &tlv(0x04, &r.bytes(n))),
    }
}

pub fn gen_kid(r: &mut Rng, sw: &Swarm) -> KidR {
    if sw.hashed_kid && r.chance(3, 4) {
        match r.below(3) {
            0 => KidR::Sha256,
            1 => KidR::Sha384,
            _ => KidR::Sha512,
        }
    } else {
        let n = *r.pick(&[0usize, 1, 8, 20, 20, 20, 32, 64]);
        KidR::Pre(r.bytes(n))
    }
}

pub fn gen_cert(r: &mut Rng, sw: &Swarm) -> CertRecipe {
    let t0 = gen_time(r);
    let t1 = if r.chance(9, 10) { gen_time(r) } else { t0 };
    let mut key_usages: Vec<u8> = (0..9u8).filter(|_| r.chance(1, 3)).collect();
    match r.below(12) {
        0 => key_usages = (0..9u8).collect(),
        1 => key_usages = vec![8],
        2 => key_usages = vec![7, 8],
        _ => {}
    }
    r.shuffle(&mut key_usages);
    if r.chance(1, 8) && !key_usages.is_empty() {
        let d = key_usages[0];
        key_usages.push(d); // duplicates are legal input
    }
    let ekus = if sw.exts && r.chance(1, 2) {
        (0..r.range(1, 4))
            .map(|_| match r.below(8) {
                0 => EkuR::Any,
                1 => EkuR::Server,
                2 => EkuR::Client,
                3 => EkuR::Code,
                4 => EkuR::Email,
                5 => EkuR::Time,
                6 => EkuR::Ocsp,
                _ => EkuR::Other(gen_oid(r)),
            })
            .collect()
    } else {
        vec![]
    };
    let sans = if sw.sans {
        let n = if sw.big && r.chance(1, 12) {
            r.range(800, 2500) // crosses the 64 KiB mark on its own
        } else if sw.big && r.chance(1, 3) {
            r.range(20, 120)
        } else {
            r.range(0, 5)
        };
        let mut v: Vec<SanR> = (0..n).map(|_| gen_san(r)).collect();
        // the same name listed twice is valid input (and what de-duplication logic trips over)
        if v.len() >= 2 && r.chance(1, 6) {
            let d = v[r.usize(v.len())].clone();
            let at = r.usize(v.len() + 1);
            v.insert(at, d);
        }
        v
    } else {
        vec![]
    };
    let name_constraints = if sw.constraints && r.chance(1, 2) {
        let a = (0..r.range(0, 3)).map(|_| gen_subtree(r)).collect();
        let b = (0..r.range(0, 3)).map(|_| gen_subtree(r)).collect();
        Some((a, b))
    } else {
        None
    };
    let crl_dps = if sw.exts && r.chance(1, 3) {
        (0..r.range(1, 3)).map(|_| (0..r.range(1, 3)).map(|_| gen_uri(r)).collect()).collect()
    } else {
        vec![]
    };
    let mut ekus: Vec<EkuR> = ekus;
    if ekus.len() >= 1 && r.chance(1, 8) {
        let d = ekus[r.usize(ekus.len())].clone();
        ekus.push(d);
    }
    let custom_exts = if sw.exts && r.chance(1, 2) {
        (0..r.range(1, 3))
            .map(|_| {
                let big = sw.big && r.chance(1, 2);
                ExtR {
                    oid: if r.chance(1, 6) { vec![2, 5, 29, *r.pick(&[14u64, 15, 17, 19, 35, 37])] } else { gen_oid(r) },
                    critical: r.bool(),
                    content: gen_ext_content(r, big),
                }
            })
            .collect()
    } else {
        vec![]
    };
    let far = |t: i64| {
        (t + 631152000).abs() > 3 * 86400 && (t - 2524608000).abs() > 3 * 86400 && t > -30610224000 + 3 * 86400 && t < 253370678400 - 3 * 86400
    };
    let offset_min: i16 = if far(t0) && far(t1) && r.chance(1, 5) { *r.pick(&[-720i16, -300, -1, 1, 60, 330, 345, 840]) } else { 0 };
    CertRecipe {
        not_before: t0,
        not_after: t1,
        offset_min,
        nanos: if r.chance(1, 4) { r.below(1_000_000_000) as u32 } else { 0 },
        serial: if sw.auto_serial && r.chance(1, 2) { None } else { Some(gen_serial_hex(r)) },
        sans,
        dn: gen_dn(r, sw.wide_dn),
        is_ca: match r.below(5) {
            0 | 1 => IsCaR::No,
            2 => IsCaR::ExplicitNo,
            3 => IsCaR::Ca(None),
            _ => IsCaR::Ca(Some(*r.pick(&[0u8, 1, 3, 127, 128, 255]))),
        },
        key_usages,
        ekus,
        name_constraints,
        crl_dps,
        custom_exts,
        use_aki: r.chance(1, 2),
        kid: gen_kid(r, sw),
    }
}

/// A recipe `serialize_request` accepts (the CSR-unsupported fields cleared).
pub fn gen_csr_cert(r: &mut Rng, sw: &Swarm) -> CertRecipe {
    let mut c = gen_cert(r, sw);
    if r.chance(9, 10) {
        c.serial = None;
        c.is_ca = IsCaR::No;
        c.name_constraints = None;
        c.crl_dps.clear();
        c.use_aki = false;
    }
    c
}

/// A CA-capable recipe for issuer slots.
pub fn gen_ca_cert(r: &mut Rng, sw: &Swarm) -> CertRecipe {
    let mut c = gen_cert(r, sw);
    c.is_ca = IsCaR::Ca(if r.bool() { None } else { Some(r.below(4) as u8) });
    if r.chance(2, 3) {
        c.key_usages = vec![0, 5, 6];
    } else if r.chance(1, 2) {
        c.key_usages.clear();
    }
    if c.dn.model().is_empty() {
        c.dn.0.push((DnTypeR::Cn, Some(DnValueR::Utf8("sim ca".into()))));
    }
    c
}

pub fn gen_crl(r: &mut Rng, sw: &Swarm) -> CrlRecipe {
    let t0 = gen_time(r);
    let t1 = if r.chance(9, 10) { t0 + r.range(1, 400 * 86400) as i64 } else { t0 - r.range(0, 1000) as i64 };
    let nrev = if sw.big && r.chance(1, 30) {
        r.range(17_000, 40_000) // what a busy CA's list looks like (about 1 MB)
    } else if sw.big && r.chance(1, 12) {
        r.range(1500, 2500) // around the 64 KiB mark
    } else if sw.big && r.chance(1, 3) {
        r.range(50, 400)
    } else {
        r.range(0, 4)
    };
    CrlRecipe {
        this_update: t0,
        next_update: t1.min(253370678400),
        crl_number: gen_serial_hex(r),
        idp: if r.chance(1, 3) {
            Some(((0..r.range(1, 3)).map(|_| gen_uri(r)).collect(), if r.bool() { Some(r.below(2) as u8) } else { None }))
        } else {
            None
        },
        revoked: {
            let mut v: Vec<RevokedR> = (0..nrev)
                .map(|_| RevokedR {
                    serial: gen_serial_hex(r),
                    time: gen_time(r),
                    reason: if r.bool() { Some(r.below(10) as u8) } else { None },
                    invalidity: if r.chance(1, 3) { Some(gen_time(r)) } else { None },
                })
                .collect();
            // the same serial listed twice, with other details: legal input
            if !v.is_empty() && r.chance(1, 8) {
                let mut d = v[r.usize(v.len())].clone();
                d.time += 1;
                d.reason = Some(r.below(10) as u8);
                v.push(d);
            }
            v
        },
        kid: gen_kid(r, sw),
    }
}

pub fn gen_attrs(r: &mut Rng) -> Vec<AttrR> {
    (0..r.range(0, 2)).map(|_| AttrR { oid_idx: r.below(3) as u8, text: s_from(r, PRINTABLE, 0, 20) }).collect()
}

/// OIDs that x509-parser's decoder does not give back as they went in: arcs 2.40 and up come
/// back as "3.x", and an encoding starting with a zero octet (0.0...) comes back too short.
pub fn beyond_2_39(o: &[u64]) -> bool {
    o.len() >= 2 && ((o[0] == 2 && o[1] >= 40) || (o[0] == 0 && o[1] == 0))
}

impl DnRecipe {
    fn has_oid_beyond_2_39(&self) -> bool {
        self.0.iter().any(|(t, _)| matches!(t, DnTypeR::Custom(o) if beyond_2_39(o)))
    }
}

impl CertRecipe {
    /// True when the certificate carries an OID with first arc 2 and second arc >= 40 in a
    /// place that `from_ca_cert_der` reads back (name, otherName SAN, directoryName constraint):
    /// x509-parser's decoder turns those into "3.x" and rcgen cannot re-encode them (DESIGN §8).
    pub fn not_importable(&self) -> bool {
        self.dn.has_oid_beyond_2_39()
            || self.sans.iter().any(|s| matches!(s, SanR::Other(o, _) if beyond_2_39(o)))
            || self.name_constraints.as_ref().map_or(false, |(a, b)| {
                a.iter().chain(b.iter()).any(|t| matches!(t, SubtreeR::Dir(d) if d.has_oid_beyond_2_39()))
            })
    }

    /// The simplest recipe every build accepts; used by the minimiser.
    pub fn minimal() -> CertRecipe {
        CertRecipe {
            not_before: 1_600_000_000,
            not_after: 1_700_000_000,
            offset_min: 0,
            nanos: 0,
            serial: Some("01".into()),
            sans: vec![],
            dn: DnRecipe(vec![(DnTypeR::Cn, Some(DnValueR::Utf8("x".into())))]),
            is_ca: IsCaR::No,
            key_usages: vec![],
            ekus: vec![],
            name_constraints: None,
            crl_dps: vec![],
            custom_exts: vec![],
            use_aki: false,
            kid: KidR::Pre(vec![1; 20]),
        }
    }
    /// One-step simplifications of this recipe.
    pub fn shrink(&self) -> Vec<CertRecipe> {
        let mut v = Vec::new();
        let m = CertRecipe::minimal();
        if *self != m {
            let mut c = m.clone();
            if self.unsupported_in_csr() != c.unsupported_in_csr() {
                c.serial = None;
            }
            v.push(c);
        }
        macro_rules! reset {
            ($f:ident) => {
                if self.$f != m.$f {
                    let mut c = self.clone();
                    c.$f = m.$f.clone();
                    v.push(c);
                }
            };
        }
        reset!(sans);
        reset!(dn);
        reset!(key_usages);
        reset!(ekus);
        reset!(name_constraints);
        reset!(crl_dps);
        reset!(custom_exts);
        reset!(use_aki);
        reset!(kid);
        reset!(is_ca);
        reset!(nanos);
        reset!(offset_min);
        reset!(not_before);
        reset!(not_after);
        if self.dn.0.len() > 1 {
            for i in 0..self.dn.0.len() {
                let mut c = self.clone();
                c.dn.0.remove(i);
                v.push(c);
            }
        }
        if self.sans.len() > 1 {
            let mut c = self.clone();
            c.sans.truncate(self.sans.len() / 2);
            v.push(c);
        }
        v
    }
}

impl CrlRecipe {
    pub fn minimal() -> CrlRecipe {
        CrlRecipe {
            this_update: 1_600_000_000,
            next_update: 1_600_086_400,
            crl_number: "01".into(),
            idp: None,
            revoked: vec![],
            kid: KidR::Pre(vec![1; 20]),
        }
    }
    pub fn shrink(&self) -> Vec<CrlRecipe> {
        let mut v = Vec::new();
        let m = CrlRecipe::minimal();
        if *self != m {
            v.push(m.clone());
        }
        if !self.revoked.is_empty() {
            let mut c = self.clone();
            c.revoked.truncate(self.revoked.len() / 2);
            v.push(c);
        }
        if self.idp.is_some() {
            let mut c = self.clone();
            c.idp = None;
            v.push(c);
        }
        if self.kid != m.kid {
            let mut c = self.clone();
            c.kid = m.kid.clone();
            v.push(c);
        }
        v
    }
}
