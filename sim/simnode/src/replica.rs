//! C16 — replica determinism across independently built configurations.
//!
//! `replica-sim`: every node (one simnode binary per feature set) receives the same seeded
//! history; its per-operation log (outcome class, digest of the to-be-signed bytes, digest
//! of the complete DER for deterministic schemes) must be identical on all nodes of a
//! comparison group — the orchestrator compares the logs. Keys are held "natively": loaded
//! locally where the build has a crypto back end, behind the remote signer where it has
//! none, always the same private key. Inside a node every artefact must also verify under
//! OpenSSL and under the node's own back end.
//!
//! `xchg-produce` / `xchg-consume`: message passing between differently built parties —
//! keys generated and exported by one back end are loaded through every entry point of the
//! other, artefacts signed by one are verified by the other.

use std::collections::BTreeMap;

use serde::{Deserialize, Serialize};
use simcore::der;
use simcore::engine::{Engine, Outcome, Tier};
use simcore::{Alg, Rng};

use crate::keys::{openssl_verify, KeySpec, Loader};
use crate::purity::{shrink_op, Observed};
use crate::world::{gen_ops_for, Custody, KeySlotSpec, Op, Ret, World};

#[derive(Clone, Debug, Serialize, Deserialize)]
pub struct ReplicaTrace {
    pub hash_seed: u64,
    pub slots: Vec<KeySlotSpec>,
    pub ops: Vec<Op>,
}

pub struct ReplicaSim;

/// Algorithms every node of every group can use (P-521 exists under aws-lc-rs only).
const COMMON: [Alg; 6] = [Alg::RsaSha256, Alg::RsaSha384, Alg::RsaSha512, Alg::P256, Alg::P384, Alg::Ed25519];

const ALL_LOADERS: [Loader; 14] = [
    Loader::SliceAuto,
    Loader::VecAuto,
    Loader::Pkcs8Auto,
    Loader::PrivateKeyDerAuto,
    Loader::PemAuto,
    Loader::Pkcs8DerAlgo,
    Loader::DerAlgo,
    Loader::Pkcs8PemAlgo,
    Loader::PemAlgo,
    Loader::LegacyDerAlgo,
    Loader::LegacyDerAuto,
    Loader::LegacySliceAuto,
    Loader::LegacyPemAlgo,
    Loader::LegacyPemAuto,
];

impl Engine for ReplicaSim {
    type Trace = ReplicaTrace;
    const NAME: &'static str = "replica-sim";

    /// mode = "<three|two>:<pem 0|1>:<x509 0|1>". Generation depends on the mode string
    /// only, never on the features of the generating build: all nodes of a group derive
    /// byte-identical traces from the same seed.
    fn generate(run_seed: u64, _index: u64, tier: Tier, mode: &str) -> ReplicaTrace {
        let mut r = Rng::new(run_seed);
        let hash_seed = r.next_u64();
        let parts: Vec<&str> = mode.split(':').collect();
        let three = parts.first().copied().unwrap_or("three") == "three";
        let x509 = parts.get(2).copied().unwrap_or("1") == "1";
        let n = r.range(2, 3) as usize;
        let slots: Vec<KeySlotSpec> = (0..n)
            .map(|_| {
                let alg = *r.pick(&COMMON);
                let loader = loop {
                    let l = *r.pick(&ALL_LOADERS);
                    if l.is_auto() && matches!(alg, Alg::RsaSha384 | Alg::RsaSha512) {
                        continue;
                    }
                    if alg == Alg::Ed25519 && matches!(l, Loader::LegacyDerAlgo | Loader::LegacyDerAuto | Loader::LegacySliceAuto | Loader::LegacyPemAlgo | Loader::LegacyPemAuto) {
                        continue;
                    }
                    break l;
                };
                KeySlotSpec { spec: KeySpec::draw_common(&mut r, alg), custody: Custody::Native(loader) }
            })
            .collect();
        let n_ops = r.range(3, if tier == Tier::Thorough { 9 } else { 6 }) as usize;
        // three-way groups: explicit serials and pre-specified key identifiers (what the
        // crypto-less build can express); two-way groups also automatic serials and SHA-2 ids
        let ops = gen_ops_for(&mut r, slots.len(), n_ops, !three, x509);
        ReplicaTrace { hash_seed, slots, ops }
    }

    fn execute(t: &ReplicaTrace) -> Outcome {
        let mut o = Outcome::default();
        #[cfg(rcgen_verif)]
        rcgen::verif_hooks::set_hash_seed(t.hash_seed);
        let mut w = match World::build(&t.slots, BTreeMap::new(), None) {
            Ok(w) => w,
            Err(e) => {
                // a key that one node cannot load while its peers can shows up as a log divergence
                o.ev(format!("setup failed: {e}"));
                o.count("world_setup_failed", 1);
                return o;
            }
        };
        for (i, op) in t.ops.iter().enumerate() {
            let res = w.exec(op);
            let obs = Observed::of(&w, op, &res);
            o.ev(format!("{i} {} {}", op.kind(), obs.tag()));
            o.count("ops", 1);
            match &res.ret {
                Ret::Ok(_) => o.count("ret_ok", 1),
                Ret::Err(_) => o.count("ret_err", 1),
                Ret::Panic(_) => o.count("ret_panic", 1),
                Ret::Skipped(_) => o.count("ret_skipped", 1),
            }
            for a in &res.artefacts {
                let Ok(s) = der::split_signed(&a.der) else {
                    o.violate("c16-shape", format!("op {i}: {} is not SEQUENCE{{tbs, alg, BIT STRING}}", a.kind));
                    return o;
                };
                let key = &w.keys[a.signer];
                // the algorithm the artefact declares, among those this key may legitimately sign with
                let alg = key.allowed_algs().into_iter().find(|x| x.sig_alg_id() == s.alg.raw).unwrap_or(key.sim.alg);
                match openssl_verify(alg, &key.sim.spki, s.tbs.raw, s.sig) {
                    Ok(true) => o.count("openssl_verified", 1),
                    _ => {
                        o.violate("c16-openssl-rejects", format!("op {i}: OpenSSL rejects the {} signed by this node ({:?})", a.kind, alg));
                        return o;
                    }
                }
                match backend_verify(alg, &key.sim.raw_pub, s.tbs.raw, s.sig) {
                    Some(true) => o.count("own_backend_verified", 1),
                    Some(false) => {
                        o.violate("c16-own-backend-rejects", format!("op {i}: this node's back end rejects the {} it signed ({:?})", a.kind, alg));
                        return o;
                    }
                    None => {}
                }
            }
        }
        o.nontrivial = t.ops.len() >= 3;
        o
    }

    fn shrink(t: &ReplicaTrace) -> Vec<ReplicaTrace> {
        let mut v = Vec::new();
        for i in (1..t.ops.len()).rev() {
            let mut c = t.clone();
            c.ops.remove(i);
            v.push(c);
        }
        for (i, op) in t.ops.iter().enumerate() {
            for s in shrink_op(op) {
                let mut c = t.clone();
                c.ops[i] = s;
                v.push(c);
            }
        }
        for (i, s) in t.slots.iter().enumerate() {
            if s.custody != Custody::Native(Loader::Pkcs8DerAlgo) {
                let mut c = t.clone();
                c.slots[i].custody = Custody::Native(Loader::Pkcs8DerAlgo);
                v.push(c);
            }
        }
        v
    }
}

/// Verification by the node's own back end, linked by the harness directly (rcgen has no
/// verify API). None on crypto-less nodes.
#[allow(unused_variables)]
pub fn backend_verify(alg: Alg, raw_pub: &[u8], msg: &[u8], sig: &[u8]) -> Option<bool> {
    #[cfg(feature = "aws_lc_rs")]
    {
        use aws_lc_rs::signature as s;
        let a: &dyn s::VerificationAlgorithm = match alg {
            Alg::RsaSha256 => &s::RSA_PKCS1_2048_8192_SHA256,
            Alg::RsaSha384 => &s::RSA_PKCS1_2048_8192_SHA384,
            Alg::RsaSha512 => &s::RSA_PKCS1_2048_8192_SHA512,
            Alg::P256 => &s::ECDSA_P256_SHA256_ASN1,
            Alg::P384 => &s::ECDSA_P384_SHA384_ASN1,
            Alg::P521 => &s::ECDSA_P521_SHA512_ASN1,
            Alg::Ed25519 => &s::ED25519,
        };
        return Some(s::UnparsedPublicKey::new(a, raw_pub).verify(msg, sig).is_ok());
    }
    #[cfg(all(feature = "ring", not(feature = "aws_lc_rs")))]
    {
        use ring::signature as s;
        let a: &dyn s::VerificationAlgorithm = match alg {
            Alg::RsaSha256 => &s::RSA_PKCS1_2048_8192_SHA256,
            Alg::RsaSha384 => &s::RSA_PKCS1_2048_8192_SHA384,
            Alg::RsaSha512 => &s::RSA_PKCS1_2048_8192_SHA512,
            Alg::P256 => &s::ECDSA_P256_SHA256_ASN1,
            Alg::P384 => &s::ECDSA_P384_SHA384_ASN1,
            Alg::P521 => return None,
            Alg::Ed25519 => &s::ED25519,
        };
        return Some(s::UnparsedPublicKey::new(a, raw_pub).verify(msg, sig).is_ok());
    }
    #[allow(unreachable_code)]
    None
}

// ------------------------------------------------------------------------------------------
// exchange between back ends
// ------------------------------------------------------------------------------------------

#[derive(Serialize, Deserialize, Clone, Debug)]
pub struct XItem {
    pub producer: String,
    pub alg: Alg,
    /// how the key came to be: "generate_for", "generate_rsa_for:<bits>", "sim:<material>"
    pub origin: String,
    #[serde(with = "simcore::hexbytes")]
    pub private_der: Vec<u8>,
    pub private_pem: Option<String>,
    #[serde(with = "simcore::hexbytes")]
    pub raw_pub: Vec<u8>,
    pub algorithm_debug: String,
    /// a certificate self-signed with this key by the producer
    #[serde(with = "simcore::hexbytes")]
    pub cert_der: Vec<u8>,
}

fn producer_name() -> String {
    if cfg!(feature = "aws_lc_rs") {
        "aws_lc_rs".into()
    } else if cfg!(feature = "ring") {
        "ring".into()
    } else {
        "none".into()
    }
}

/// Generates keys with this node's back end (`generate_for`, `generate_rsa_for`), exports
/// them, signs one certificate with each. JSON lines on stdout.
#[cfg(feature = "crypto")]
pub fn xchg_produce(seed: u64, rounds: usize) -> i32 {
    use crate::keys::sig_alg;
    let mut r = Rng::new(simcore::prng::run_seed(seed, "xchg", 0));
    let mut algs = vec![Alg::P256, Alg::P384, Alg::Ed25519];
    if cfg!(feature = "aws_lc_rs") {
        algs.extend_from_slice(&[Alg::P521, Alg::RsaSha256, Alg::RsaSha384, Alg::RsaSha512]);
    }
    let sw = crate::recipe::Swarm { sans: true, wide_dn: true, exts: true, constraints: false, big: false, hashed_kid: true, auto_serial: true };
    for round in 0..rounds {
        for alg in &algs {
            // RSA generation is slow: one round only
            if alg.is_rsa() && round > 0 {
                continue;
            }
            let (kp, origin) = {
                #[cfg(feature = "aws_lc_rs")]
                {
                    if alg.is_rsa() && *alg != Alg::RsaSha256 {
                        let size = if *alg == Alg::RsaSha384 { rcgen::RsaKeySize::_3072 } else { rcgen::RsaKeySize::_2048 };
                        (rcgen::KeyPair::generate_rsa_for(sig_alg(*alg), size), format!("generate_rsa_for:{:?}", size))
                    } else {
                        (rcgen::KeyPair::generate_for(sig_alg(*alg)), "generate_for".to_string())
                    }
                }
                #[cfg(not(feature = "aws_lc_rs"))]
                {
                    (rcgen::KeyPair::generate_for(sig_alg(*alg)), "generate_for".to_string())
                }
            };
            let kp = match kp {
                Ok(k) => k,
                Err(e) => {
                    eprintln!("produce: {:?} {origin}: {e:?}", alg);
                    return 2;
                }
            };
            let recipe = crate::recipe::gen_cert(&mut r, &sw);
            let cert = match recipe.build().self_signed(&kp) {
                Ok(c) => c,
                Err(e) => {
                    eprintln!("produce: self_signed failed: {e:?}");
                    return 2;
                }
            };
            let item = XItem {
                producer: producer_name(),
                alg: *alg,
                origin,
                private_der: kp.serialize_der(),
                #[cfg(feature = "pem")]
                private_pem: Some(kp.serialize_pem()),
                #[cfg(not(feature = "pem"))]
                private_pem: None,
                raw_pub: kp.public_key_raw().to_vec(),
                algorithm_debug: format!("{:?}", kp.algorithm()),
                cert_der: cert.der().to_vec(),
            };
            println!("{}", serde_json::to_string(&item).unwrap());
        }
    }
    0
}

/// Loads every key of the file through every entry point this node offers and verifies
/// every certificate with this node's back end and OpenSSL. One JSON line per item.
#[cfg(feature = "crypto")]
pub fn xchg_consume(path: &str) -> i32 {
    use pki_types::{PrivateKeyDer, PrivatePkcs8KeyDer};
    let text = std::fs::read_to_string(path).expect("read exchange file");
    let mut bad = 0;
    for (n, line) in text.lines().enumerate() {
        let item: XItem = serde_json::from_str(line).expect("exchange item");
        let me = producer_name();
        let mut problems: Vec<(String, String)> = Vec::new();
        let mut loads = 0;
        let common = item.alg != Alg::P521 || cfg!(feature = "aws_lc_rs");
        if common {
            let alg = crate::keys::sig_alg(item.alg);
            let der = item.private_der.as_slice();
            let mut attempts: Vec<(&str, Result<rcgen::KeyPair, rcgen::Error>)> = Vec::new();
            attempts.push(("from_pkcs8_der_and_sign_algo", simcore::engine::guarded(|| rcgen::KeyPair::from_pkcs8_der_and_sign_algo(&PrivatePkcs8KeyDer::from(der), alg)).unwrap_or(Err(rcgen::Error::RemoteKeyError))));
            attempts.push(("from_der_and_sign_algo", simcore::engine::guarded(|| rcgen::KeyPair::from_der_and_sign_algo(&PrivateKeyDer::Pkcs8(PrivatePkcs8KeyDer::from(der)), alg)).unwrap_or(Err(rcgen::Error::RemoteKeyError))));
            let auto_ok = !matches!(item.alg, Alg::RsaSha384 | Alg::RsaSha512);
            if auto_ok {
                attempts.push(("TryFrom<&[u8]>", rcgen::KeyPair::try_from(der)));
                attempts.push(("TryFrom<Vec<u8>>", rcgen::KeyPair::try_from(der.to_vec())));
                attempts.push(("TryFrom<&PrivatePkcs8KeyDer>", rcgen::KeyPair::try_from(&PrivatePkcs8KeyDer::from(der))));
                attempts.push(("TryFrom<&PrivateKeyDer>", rcgen::KeyPair::try_from(&PrivateKeyDer::Pkcs8(PrivatePkcs8KeyDer::from(der)))));
            }
            #[cfg(feature = "pem")]
            if let Some(pem) = &item.private_pem {
                attempts.push(("from_pkcs8_pem_and_sign_algo", rcgen::KeyPair::from_pkcs8_pem_and_sign_algo(pem, alg)));
                attempts.push(("from_pem_and_sign_algo", rcgen::KeyPair::from_pem_and_sign_algo(pem, alg)));
                if auto_ok {
                    attempts.push(("from_pem", rcgen::KeyPair::from_pem(pem)));
                }
            }
            for (how, r) in attempts {
                loads += 1;
                match r {
                    Ok(kp) => {
                        if kp.public_key_raw() != item.raw_pub.as_slice() {
                            problems.push(("c16-cross-load".into(), format!("{how}: key exported by {} loads in {me} with a different public key", item.producer)));
                        }
                        if format!("{:?}", kp.algorithm()) != item.algorithm_debug {
                            problems.push((
                                "c16-cross-load".into(),
                                format!("{how}: key exported by {} as {} loads in {me} as {:?}", item.producer, item.algorithm_debug, kp.algorithm()),
                            ));
                        }
                    }
                    Err(e) => problems.push(("c16-cross-load".into(), format!("{how}: key ({:?}, {}) exported by {} does not load in {me}: {e:?}", item.alg, item.origin, item.producer))),
                }
            }
        }
        // the certificate signed by the producer verifies here and under OpenSSL
        let mut verified = 0;
        match der::split_signed(&item.cert_der) {
            Ok(s) => {
                let spki = crate::keys::make_spki(item.alg, &item.raw_pub);
                match openssl_verify(item.alg, &spki, s.tbs.raw, s.sig) {
                    Ok(true) => verified += 1,
                    _ => problems.push(("c16-cross-verify".into(), format!("certificate signed under {} ({:?}) does not verify under OpenSSL", item.producer, item.alg))),
                }
                match backend_verify(item.alg, &item.raw_pub, s.tbs.raw, s.sig) {
                    Some(true) => verified += 1,
                    Some(false) => problems.push(("c16-cross-verify".into(), format!("certificate signed under {} ({:?}) does not verify under {me}", item.producer, item.alg))),
                    None => {}
                }
            }
            Err(e) => problems.push(("c16-shape".into(), e.0)),
        }
        if !problems.is_empty() {
            bad += 1;
        }
        println!(
            "{}",
            serde_json::json!({"item": n, "alg": item.alg, "origin": item.origin, "producer": item.producer, "consumer": me,
                "loads": loads, "verifications": verified,
                "problems": problems.iter().map(|(c, d)| serde_json::json!({"class": c, "detail": d})).collect::<Vec<_>>()})
        );
    }
    if bad > 0 {
        1
    } else {
        0
    }
}
