//! C15 — generation is a pure function of its inputs: deterministic and thread-safe.
//!
//! L1 (`purity-hist`): one thread, seeded call histories. Observed calls are repeated at
//! seeded positions of a history full of noise on the same keys and issuers; every
//! repetition is rebuilt from the recipe (fresh name maps, fresh seeded hash states).
//! L2 (`purity-shuttle`, feature "shuttle"): threads under shuttle's seeded schedulers.

use std::collections::BTreeMap;

use serde::{Deserialize, Serialize};
use simcore::der;
use simcore::Rng;

use simcore::engine::{guarded, Engine, Outcome, Tier};
use crate::recipe::{gen_dn_type, gen_dn_value, DnTypeR, DnValueR};
use crate::signer::SignerFault;
use crate::world::{gen_ops, gen_slots, Custody, GenCfg, KeySlotSpec, Op, Ret, SubjectVia, World};

#[derive(Clone, Debug, PartialEq, Eq, Serialize, Deserialize)]
pub enum Noise {
    /// another generation on the same keys / issuers (may legitimately fail)
    Gen(Op),
    /// a generation during which the (remote) signer fails
    FailingGen(Op, u8),
    /// CertificateParams::from_ca_cert_der on an issuer's DER
    ImportCa(usize),
    /// SubjectPublicKeyInfo::from_der on a key's SPKI
    ParseSpki(usize),
    /// load the key's PKCS#8 once more into a second KeyPair and drop it
    ReloadKey(usize),
    /// clone an issuer's parameters, edit the clone's name, drop it
    EditClone { issuer: usize, ty: DnTypeR, val: Option<DnValueR> },
    /// Debug-format a key, an issuer certificate and its parameters
    DebugFmt { key: usize, issuer: usize },
    /// export the key: public_key_der / public_key_pem / serialize_der / serialize_pem
    Export(usize),
    /// key_identifier() of an issuer certificate
    KeyId(usize),
    /// CA key roll-over: a second CA with the same name and parameters as the issuer of this
    /// (observed) Issue operation but under another key of the same algorithm issues the very
    /// same request — byte-identical to-be-signed data under two different keys
    Rollover(Op),
    /// many other issuers pass through the process: `n` distinct Ed25519 CAs (remote keys on a
    /// bus of their own), each self-signs, signs one CRL and issues one certificate — what
    /// fills, and overflows, any bounded process-wide table
    Flood { n: u32, seed: u64 },
}

#[derive(Clone, Debug, PartialEq, Eq, Serialize, Deserialize)]
pub enum HStep {
    Observe(usize),
    /// the observed call with parameters that are *equal* to the recipe's but were reached
    /// through another object history: the name built up to `split` edits, encoded once (the
    /// parameters go through a self-signing and come back as `cert.params().clone()`), then
    /// the remaining edits applied in place
    ObserveTwin { obs: usize, split: usize },
    /// the observed call with a *clone* of the shared issuer certificate in the issuer's place
    ObserveViaClone(usize),
    /// the observed Issue call with the subject key given as a *second object* for the same key
    /// (re-loaded), so that subject and signing key are never the same object
    ObserveReloadedSubject(usize),
    /// the observed call made from *inside* a remote signer's `sign` callback, while another
    /// generation (a self-signed certificate under the remote key in slot `carrier`) is in
    /// progress on the same thread
    ObserveNested { obs: usize, carrier: usize },
    Noise(Noise),
}

#[derive(Clone, Debug, Serialize, Deserialize)]
pub struct PurityTrace {
    pub hash_seed: u64,
    pub slots: Vec<KeySlotSpec>,
    /// issuer set-up, executed first
    pub setup: Vec<Op>,
    pub observed: Vec<Op>,
    pub history: Vec<HStep>,
}

pub struct PurityHist;

fn unstore(op: &mut Op) {
    match op {
        Op::SelfSign { store, .. } | Op::Issue { store, .. } => *store = false,
        _ => {}
    }
}

pub fn gen_world_and_ops(r: &mut Rng, crypto: bool, n_obs: usize) -> (Vec<KeySlotSpec>, Vec<Op>, Vec<Op>) {
    let cfg = GenCfg { allow_remote: true, allow_local: crypto, max_keys: 3, max_ops: 0 };
    let mut slots = gen_slots(r, &cfg);
    // now and then two key slots of the same algorithm (what a key roll-over needs)
    if slots.len() >= 2 && r.chance(1, 3) {
        slots[1] = KeySlotSpec { spec: crate::keys::KeySpec::draw(r, slots[0].spec.alg), custody: slots[0].custody.clone() };
    }
    // setup: a root and, half of the time, an intermediate (both stored)
    let all = gen_ops(r, slots.len(), 12, crypto);
    let mut setup: Vec<Op> = Vec::new();
    let mut pool: Vec<Op> = Vec::new();
    for (i, op) in all.into_iter().enumerate() {
        let stores = matches!(&op, Op::SelfSign { store: true, .. } | Op::Issue { store: true, .. });
        if i == 0 || (stores && setup.len() < 2) {
            setup.push(op);
        } else {
            pool.push(op);
        }
    }
    let n_issuers = setup.len();
    // operations may refer to issuer indices beyond what setup provides: fold them down
    for op in pool.iter_mut() {
        match op {
            Op::Issue { issuer, .. } | Op::IssueFromCsr { issuer, .. } | Op::Crl { issuer, .. } | Op::IssueViaImport { issuer, .. } => *issuer %= n_issuers,
            _ => {}
        }
        unstore(op);
    }
    for (k, op) in setup.iter_mut().enumerate() {
        if let Op::Issue { issuer, .. } = op {
            *issuer %= k.max(1);
        }
    }
    let _ = n_obs;
    (slots, setup, pool)
}

impl Engine for PurityHist {
    type Trace = PurityTrace;
    const NAME: &'static str = "purity-hist";

    fn generate(run_seed: u64, _index: u64, tier: Tier, _mode: &str) -> PurityTrace {
        let mut r = Rng::new(run_seed);
        let hash_seed = r.next_u64();
        let crypto = cfg!(feature = "crypto");
        let n_obs = r.range(1, 3) as usize;
        let (slots, setup, mut rest) = gen_world_and_ops(&mut r, crypto, n_obs);
        let observed: Vec<Op> = rest.drain(..n_obs.min(rest.len())).collect();
        let noise_ops = rest;
        let mut observed = observed;
        for op in observed.iter_mut() {
            // re-certifying the issuer's own key under new parameters: subject key == signing key
            if let Op::Issue { issuer, subject, .. } = op {
                if r.chance(1, 3) {
                    if let Some(Op::SelfSign { key, .. }) = setup.get(*issuer) {
                        *subject = *key;
                    }
                }
            }
        }
        let n_issuers = setup.len();
        let n_keys = slots.len();
        let len = if tier == Tier::Thorough { r.range(10, 40) } else { r.range(8, 24) } as usize;
        let mut history: Vec<HStep> = Vec::new();
        // each observed call at least 3 times, at seeded positions
        for (i, op) in observed.iter().enumerate() {
            for _ in 0..r.range(3, 4) {
                history.push(HStep::Observe(i));
            }
            if issuer_of(op).is_some() && r.chance(1, 2) {
                history.push(HStep::ObserveViaClone(i));
            }
            if matches!(op, Op::Issue { .. }) && r.chance(1, 2) {
                history.push(HStep::ObserveReloadedSubject(i));
            }
            if r.chance(1, 3) {
                if let Some(carrier) = (0..slots.len()).filter(|k| matches!(slots[*k].custody, Custody::Remote)).last() {
                    history.push(HStep::ObserveNested { obs: i, carrier });
                }
            }
            if let Op::SelfSign { recipe, .. } | Op::Issue { recipe, .. } | Op::Csr { recipe, .. } = op {
                if r.chance(2, 3) {
                    history.push(HStep::ObserveTwin { obs: i, split: r.usize(recipe.dn.0.len() + 1) });
                }
            }
        }
        // near misses of the observed calls: the same request with one detail changed and every
        // identity-like field (serial numbers, keys, issuer) kept — what pollutes a memo that is
        // keyed too coarsely
        for op in observed.iter() {
            for _ in 0..r.range(0, 2) {
                let near = perturb_op(op, &mut r);
                history.push(HStep::Noise(if r.chance(1, 4) {
                    Noise::FailingGen(near, if r.chance(1, 3) { 255 } else { r.below(10) as u8 })
                } else {
                    Noise::Gen(near)
                }));
            }
        }
        for op in observed.iter() {
            if matches!(op, Op::Issue { .. }) && r.chance(1, 2) {
                history.push(HStep::Noise(Noise::Rollover(op.clone())));
            }
        }
        if r.chance(1, 25) {
            history.push(HStep::Noise(Noise::Flood { n: *r.pick(&[1100u32, 1100, 2100, 4200]), seed: r.next_u64() }));
        }
        while history.len() < len {
            let key = r.usize(n_keys);
            let issuer = r.usize(n_issuers);
            let n = match r.below(12) {
                0..=2 if !noise_ops.is_empty() => Noise::Gen(r.pick(&noise_ops).clone()),
                3 | 4 if !noise_ops.is_empty() => {
                    Noise::FailingGen(r.pick(&noise_ops).clone(), if r.chance(1, 4) { 255 } else { r.below(10) as u8 })
                }
                5 => Noise::ImportCa(issuer),
                6 => Noise::ParseSpki(key),
                7 => Noise::ReloadKey(key),
                8 => Noise::EditClone {
                    issuer,
                    ty: gen_dn_type(&mut r),
                    val: if r.chance(2, 3) { Some(gen_dn_value(&mut r, 8)) } else { None },
                },
                9 => Noise::DebugFmt { key, issuer },
                10 => Noise::Export(key),
                _ => Noise::KeyId(issuer),
            };
            history.push(HStep::Noise(n));
        }
        r.shuffle(&mut history);
        PurityTrace { hash_seed, slots, setup, observed, history }
    }

    fn execute(t: &PurityTrace) -> Outcome {
        let mut o = Outcome::default();
        #[cfg(rcgen_verif)]
        rcgen::verif_hooks::set_hash_seed(t.hash_seed);
        let mut w = match World::build(&t.slots, BTreeMap::new(), None) {
            Ok(w) => w,
            Err(e) => {
                o.count("world_setup_failed", 1);
                o.ev(format!("setup failed: {e}"));
                return o;
            }
        };
        for op in &t.setup {
            let r = w.exec(op);
            o.ev(format!("setup {} {}", op.kind(), ret_tag(&r.ret)));
        }
        if w.issuers.is_empty() {
            o.count("no_issuer", 1);
            return o;
        }
        let snap = Snapshot::take(&w);
        // pristine references: each observed call executed in a fresh process in which only its
        // own issuer chain has been set up — no other set-up operation, no noise
        let pristine: Vec<Option<Observed>> = if w.issuers.len() == t.setup.len() {
            t.observed.iter().map(|op| pristine_reference(t, op)).collect()
        } else {
            vec![None; t.observed.len()]
        };
        o.count("pristine_references", pristine.iter().filter(|p| p.is_some()).count() as u64);
        // first execution of each observed call defines its reference
        let mut reference: Vec<Option<Observed>> = vec![None; t.observed.len()];
        let mut repeats = 0u64;
        for (step, h) in t.history.iter().enumerate() {
            match h {
                HStep::Observe(i) => {
                    let Some(op) = t.observed.get(*i) else { continue };
                    let r = w.exec_ro(op).0;
                    o.count("observed_calls", 1);
                    let now = Observed::of(&w, op, &r);
                    o.ev(format!("{step} observe[{i}] {} {}", op.kind(), now.tag()));
                    if r.params_preserved == Some(false) {
                        o.violate("c15-params-altered", format!("step {step} observe[{i}] {}: {}", op.kind(), clip(&r.params_detail)));
                        break;
                    }
                    if r.params_preserved == Some(true) {
                        o.count("params_equality_checked", 1);
                    }
                    if let Some(Some(p)) = pristine.get(*i) {
                        o.count("compared_with_pristine", 1);
                        if let Err((_, d)) = p.same_as(&now) {
                            o.violate(
                                "c15-history-dependent",
                                format!("step {step} observe[{i}] {}: differs from the same call in a fresh process with only its own issuer chain set up: {d}", op.kind()),
                            );
                            break;
                        }
                    }
                    match &reference[*i] {
                        None => reference[*i] = Some(now),
                        Some(first) => {
                            repeats += 1;
                            if let Err((c, d)) = first.same_as(&now) {
                                o.violate(&c, format!("step {step} observe[{i}] {}: {d}", op.kind()));
                                break;
                            }
                        }
                    }
                }
                HStep::ObserveNested { obs, carrier } => {
                    let Some(op) = t.observed.get(*obs) else { continue };
                    let Some(ck) = w.keys.get(*carrier).filter(|k| k.is_remote()) else { continue };
                    let slot: std::rc::Rc<std::cell::RefCell<Option<crate::world::OpResult>>> = Default::default();
                    {
                        let out = slot.clone();
                        let wr: &World = &w;
                        let f: Box<dyn FnOnce() + '_> = Box::new(move || {
                            *out.borrow_mut() = Some(wr.exec_ro(op).0);
                        });
                        // the closure borrows the world and the trace; it is consumed by the signer
                        // call below or taken back right after it, before either can go away
                        let f: Box<dyn FnOnce() + 'static> = unsafe { std::mem::transmute(f) };
                        crate::signer::NESTED.with(|n| *n.borrow_mut() = Some(f));
                        let mut p = rcgen::CertificateParams::default();
                        p.distinguished_name.push(rcgen::DnType::CommonName, "carrier of a nested generation");
                        let _ = guarded(|| p.self_signed(&ck.kp).map(|c| c.der().to_vec()));
                        crate::signer::NESTED.with(|n| n.borrow_mut().take());
                    }
                    let Some(r) = slot.borrow_mut().take() else { continue };
                    let now = Observed::of(&w, op, &r);
                    o.count("observations_nested_in_a_signer_callback", 1);
                    o.ev(format!("{step} nested[{obs}] {}", now.tag()));
                    let want = match (&reference[*obs], pristine.get(*obs)) {
                        (Some(f), _) => Some(f.clone()),
                        (None, Some(Some(p))) => Some(p.clone()),
                        _ => None,
                    };
                    if let Some(want) = want {
                        if let Err((_, d)) = want.same_as(&now) {
                            o.violate(
                                "c15-history-dependent",
                                format!("step {step} observe[{obs}] {} made from inside a signer callback (another generation in progress on the thread): {d}", op.kind()),
                            );
                            break;
                        }
                    }
                }
                HStep::ObserveReloadedSubject(i) => {
                    let Some(op) = t.observed.get(*i) else { continue };
                    let Op::Issue { subject, .. } = op else { continue };
                    let Some(kp2) = w.second_key_object(*subject) else { continue };
                    let Some(r) = w.exec_issue_with_subject(op, &kp2) else { continue };
                    let now = Observed::of(&w, op, &r);
                    o.count("observations_with_reloaded_subject_key", 1);
                    o.ev(format!("{step} reloaded-subject[{i}] {}", now.tag()));
                    let want = match (&reference[*i], pristine.get(*i)) {
                        (Some(f), _) => Some(f.clone()),
                        (None, Some(Some(p))) => Some(p.clone()),
                        _ => None,
                    };
                    if let Some(want) = want {
                        if let Err((_, d)) = want.same_as(&now) {
                            o.violate("c15-key-object-identity-matters", format!("step {step} observe[{i}] issue with the subject key given as a second object for the same key: {d}"));
                            break;
                        }
                        // ... and as an object for the same RSA key labelled with another signature
                        // hash: the subject signs nothing, its public key is all that may matter
                        if let Some(kp3) = w.second_key_object_other_hash(*subject) {
                            if let Some(r3) = w.exec_issue_with_subject(op, &kp3) {
                                let now3 = Observed::of(&w, op, &r3);
                                o.count("observations_with_subject_key_under_another_hash", 1);
                                o.ev(format!("{step} rehashed-subject[{i}] {}", now3.tag()));
                                if let Err((_, d)) = want.same_as(&now3) {
                                    o.violate(
                                        "c15-subject-key-label-matters",
                                        format!("step {step} observe[{i}] issue with the subject given as the same RSA key configured with another signature hash (same public key, the subject signs nothing): {d}"),
                                    );
                                    break;
                                }
                            }
                        }
                    }
                }
                HStep::ObserveViaClone(i) => {
                    let Some(op) = t.observed.get(*i) else { continue };
                    let Some(k) = issuer_of(op).filter(|k| *k < w.issuers.len()) else { continue };
                    // put a clone in the issuer's place for this one call, then put the original back
                    let clone = w.issuers[k].cert.clone();
                    let original = std::mem::replace(&mut w.issuers[k].cert, clone);
                    let r = w.exec_ro(op).0;
                    w.issuers[k].cert = original;
                    let now = Observed::of(&w, op, &r);
                    o.count("observations_via_cloned_issuer", 1);
                    o.ev(format!("{step} via-clone[{i}] {} {}", op.kind(), now.tag()));
                    let want = match (&reference[*i], pristine.get(*i)) {
                        (Some(f), _) => Some(f.clone()),
                        (None, Some(Some(p))) => Some(p.clone()),
                        _ => None,
                    };
                    if let Some(want) = want {
                        if let Err((_, d)) = want.same_as(&now) {
                            o.violate("c15-clone-of-issuer-differs", format!("step {step} observe[{i}] {} with a clone of the issuer certificate: {d}", op.kind()));
                            break;
                        }
                    }
                }
                HStep::ObserveTwin { obs, split } => {
                    let Some(op) = t.observed.get(*obs) else { continue };
                    let (Op::SelfSign { recipe, .. } | Op::Issue { recipe, .. } | Op::Csr { recipe, .. }) = op else { continue };
                    let twin = guarded(|| build_twin(&w, recipe, *split));
                    let Ok(Some(params)) = twin else {
                        o.count("twin_not_built", 1);
                        continue;
                    };
                    let r = w.exec_with_params(op, params);
                    let now = Observed::of(&w, op, &r);
                    o.count("twin_observations", 1);
                    o.ev(format!("{step} twin[{obs}] split={split} {} {}", op.kind(), now.tag()));
                    let want = match (&reference[*obs], pristine.get(*obs)) {
                        (Some(f), _) => Some(f.clone()),
                        (None, Some(Some(p))) => Some(p.clone()),
                        _ => None,
                    };
                    if let Some(want) = want {
                        if let Err((_, d)) = want.same_as(&now) {
                            o.violate(
                                "c15-equal-params-different-output",
                                format!("step {step} twin of observe[{obs}] {} (name edited in place after {split} edits and one encoding): {d}", op.kind()),
                            );
                            break;
                        }
                    }
                }
                HStep::Noise(n) => {
                    let tag = match guarded(|| noise(&mut w, n)) {
                        Ok(s) => s,
                        Err(p) => format!("panic:{}", clip(&p)),
                    };
                    o.count("noise_steps", 1);
                    o.count(&format!("noise_{}", noise_kind(n)), 1);
                    o.ev(format!("{step} noise {} {}", noise_kind(n), tag));
                }
            }
            // world invariant after every step
            if let Err(d) = snap.check(&w) {
                o.violate("c15-shared-state-altered", format!("after step {step} ({}): {d}", hstep_tag(h)));
                break;
            }
        }
        o.count("repeated_observations_compared", repeats);
        o.nontrivial = repeats >= 2;
        o
    }

    fn shrink(t: &PurityTrace) -> Vec<PurityTrace> {
        let mut v = Vec::new();
        let n = t.history.len();
        let mut chunk = n / 2;
        while chunk >= 1 {
            let mut i = 0;
            while i + chunk <= n {
                let mut c = t.clone();
                c.history.drain(i..i + chunk);
                if !c.history.is_empty() {
                    v.push(c);
                }
                i += chunk;
            }
            if chunk == 1 {
                break;
            }
            chunk /= 2;
        }
        for (i, op) in t.observed.iter().enumerate() {
            for s in shrink_op(op) {
                let mut c = t.clone();
                c.observed[i] = s;
                v.push(c);
            }
        }
        for (i, op) in t.setup.iter().enumerate() {
            for s in shrink_op(op) {
                let mut c = t.clone();
                c.setup[i] = s;
                v.push(c);
            }
        }
        for (i, h) in t.history.iter().enumerate() {
            if let HStep::Noise(Noise::Gen(op)) | HStep::Noise(Noise::FailingGen(op, _)) = h {
                for s in shrink_op(op).into_iter().take(1) {
                    let mut c = t.clone();
                    c.history[i] = HStep::Noise(Noise::Gen(s));
                    v.push(c);
                }
            }
        }
        if t.hash_seed != 1 {
            let mut c = t.clone();
            c.hash_seed = 1;
            v.push(c);
        }
        v
    }
}

/// The same request with one detail changed; serial numbers, keys and issuer stay.
pub fn perturb_op(op: &Op, r: &mut Rng) -> Op {
    use crate::recipe::{DnValueR, SanR};
    let mut o = op.clone();
    match &mut o {
        Op::SelfSign { recipe, store, .. } | Op::Issue { recipe, store, .. } => {
            *store = false;
            perturb_cert(recipe, r);
        }
        Op::Csr { recipe, .. } | Op::IssueFromCsr { recipe, .. } | Op::IssueViaImport { recipe, .. } => perturb_cert(recipe, r),
        Op::Simple { .. } => {}
        Op::Crl { recipe, .. } => {
            if !recipe.revoked.is_empty() && r.chance(3, 4) {
                let k = r.usize(recipe.revoked.len());
                let e = &mut recipe.revoked[k];
                match r.below(3) {
                    0 => e.reason = Some(match e.reason { Some(x) => (x + 1) % 10, None => 1 }),
                    1 => e.time += 86_400,
                    _ => e.invalidity = Some(e.invalidity.unwrap_or(e.time) - 3_600),
                }
            } else if r.bool() {
                recipe.next_update += 86_400;
            } else {
                recipe.idp = match recipe.idp.take() {
                    Some(_) => None,
                    None => Some((vec!["http://crl.example/near-miss".into()], None)),
                };
            }
        }
    }
    fn perturb_cert(c: &mut crate::recipe::CertRecipe, r: &mut Rng) {
        match r.below(6) {
            0 => c.not_after += 86_400,
            1 => {
                // replace the value of an attribute that is present (or add a common name)
                if let Some(e) = c.dn.0.iter_mut().rev().find(|(_, v)| v.is_some()) {
                    e.1 = Some(DnValueR::Utf8("near miss".into()));
                } else {
                    c.dn.0.push((crate::recipe::DnTypeR::Cn, Some(DnValueR::Utf8("near miss".into()))));
                }
            }
            2 => {
                if c.sans.is_empty() {
                    c.sans.push(SanR::Dns("near-miss.example".into()));
                } else {
                    c.sans.pop();
                }
            }
            3 => c.use_aki = !c.use_aki && !c.unsupported_in_csr(),
            4 => {
                if c.key_usages.is_empty() {
                    c.key_usages.push(0);
                } else {
                    c.key_usages.pop();
                }
            }
            _ => c.not_before -= 3_600,
        }
    }
    o
}

fn issuer_of(op: &Op) -> Option<usize> {
    match op {
        Op::Issue { issuer, .. } | Op::IssueFromCsr { issuer, .. } | Op::Crl { issuer, .. } | Op::IssueViaImport { issuer, .. } => Some(*issuer),
        _ => None,
    }
}

fn with_issuer(op: &Op, i: usize) -> Op {
    let mut o = op.clone();
    match &mut o {
        Op::Issue { issuer, .. } | Op::IssueFromCsr { issuer, .. } | Op::Crl { issuer, .. } | Op::IssueViaImport { issuer, .. } => *issuer = i,
        _ => {}
    }
    o
}

/// The set-up operations `op` depends on (its issuer chain), re-indexed, and `op` itself.
fn minimal_prefix(setup: &[Op], op: &Op) -> (Vec<Op>, Op) {
    let mut needed = std::collections::BTreeSet::new();
    let mut stack: Vec<usize> = issuer_of(op).into_iter().collect();
    while let Some(i) = stack.pop() {
        if i < setup.len() && needed.insert(i) {
            if let Some(j) = issuer_of(&setup[i]) {
                stack.push(j);
            }
        }
    }
    let order: Vec<usize> = needed.into_iter().collect();
    let remap = |i: usize| order.iter().position(|x| *x == i).unwrap_or(0);
    let new_setup = order
        .iter()
        .map(|&i| match issuer_of(&setup[i]) {
            Some(j) => with_issuer(&setup[i], remap(j)),
            None => setup[i].clone(),
        })
        .collect();
    let new_op = match issuer_of(op) {
        Some(j) => with_issuer(op, remap(j)),
        None => op.clone(),
    };
    (new_setup, new_op)
}

fn pristine_reference(t: &PurityTrace, op: &Op) -> Option<Observed> {
    let (setup, op) = minimal_prefix(&t.setup, op);
    let slots = t.slots.clone();
    let hs = t.hash_seed ^ 0x00c0_ffee;
    simcore::engine::in_child(move || {
        #[cfg(rcgen_verif)]
        rcgen::verif_hooks::set_hash_seed(hs);
        let _ = hs;
        let mut w = World::build(&slots, BTreeMap::new(), None).ok()?;
        for s in &setup {
            w.exec(s);
        }
        if w.issuers.len() != setup.len() {
            return None;
        }
        let r = w.exec_ro(&op).0;
        Some(Observed::of(&w, &op, &r))
    })
    .flatten()
}

/// Parameters equal to `recipe.build()` reached through another object history.
fn build_twin(w: &World, recipe: &crate::recipe::CertRecipe, split: usize) -> Option<rcgen::CertificateParams> {
    let mut partial = recipe.clone();
    let split = split.min(recipe.dn.0.len());
    partial.dn.0.truncate(split);
    let p = partial.build();
    // one encoding of the partial name; the parameters come back inside the certificate
    let mut p2 = match p.self_signed(&w.keys[0].kp) {
        Ok(cert) => cert.params().clone(),
        Err(_) => partial.build(),
    };
    for (ty, v) in &recipe.dn.0[split..] {
        match v {
            Some(v) => p2.distinguished_name.push(ty.build(), v.build()),
            None => {
                p2.distinguished_name.remove(ty.build());
            }
        }
    }
    if p2 != recipe.build() {
        return None;
    }
    Some(p2)
}

pub fn shrink_op(op: &Op) -> Vec<Op> {
    match op {
        Op::SelfSign { key, recipe, store } => {
            recipe.shrink().into_iter().map(|r| Op::SelfSign { key: *key, recipe: r, store: *store }).collect()
        }
        Op::Issue { issuer, subject, via, recipe, store } => {
            let mut v: Vec<Op> = recipe
                .shrink()
                .into_iter()
                .map(|r| Op::Issue { issuer: *issuer, subject: *subject, via: via.clone(), recipe: r, store: *store })
                .collect();
            if *via != SubjectVia::KeyPair {
                v.push(Op::Issue { issuer: *issuer, subject: *subject, via: SubjectVia::KeyPair, recipe: recipe.clone(), store: *store });
            }
            v
        }
        Op::Csr { key, recipe, attrs } => {
            let mut v: Vec<Op> =
                recipe.shrink().into_iter().map(|r| Op::Csr { key: *key, recipe: r, attrs: attrs.clone() }).collect();
            if !attrs.is_empty() {
                v.push(Op::Csr { key: *key, recipe: recipe.clone(), attrs: vec![] });
            }
            v
        }
        Op::IssueFromCsr { issuer, key, recipe } => {
            recipe.shrink().into_iter().map(|r| Op::IssueFromCsr { issuer: *issuer, key: *key, recipe: r }).collect()
        }
        Op::Crl { issuer, recipe } => recipe.shrink().into_iter().map(|r| Op::Crl { issuer: *issuer, recipe: r }).collect(),
        Op::IssueViaImport { issuer, subject, recipe } => {
            recipe.shrink().into_iter().map(|r| Op::IssueViaImport { issuer: *issuer, subject: *subject, recipe: r }).collect()
        }
        Op::Simple { .. } => vec![],
    }
}

fn clip(s: &str) -> String {
    if s.len() > 600 {
        format!("{}…", s.chars().take(600).collect::<String>())
    } else {
        s.to_string()
    }
}

pub fn ret_tag(r: &Ret) -> String {
    match r {
        Ret::Ok(d) => match der::split_signed(d) {
            Ok(s) => format!("ok tbs={}", simcore::sha256::short(s.tbs.raw)),
            Err(_) => "ok unparsable".into(),
        },
        Ret::Err(e) => format!("err:{e}"),
        Ret::Panic(p) => format!("panic:{}", p.chars().take(60).collect::<String>()),
        Ret::Skipped(s) => format!("skipped:{s}"),
    }
}

fn hstep_tag(h: &HStep) -> String {
    match h {
        HStep::Observe(i) => format!("observe[{i}]"),
        HStep::ObserveTwin { obs, split } => format!("twin[{obs}] split={split}"),
        HStep::ObserveViaClone(i) => format!("via-clone[{i}]"),
        HStep::ObserveReloadedSubject(i) => format!("reloaded-subject[{i}]"),
        HStep::ObserveNested { obs, carrier } => format!("nested[{obs}] carrier={carrier}"),
        HStep::Noise(n) => format!("noise {}", noise_kind(n)),
    }
}

fn noise_kind(n: &Noise) -> &'static str {
    match n {
        Noise::Gen(_) => "gen",
        Noise::FailingGen(..) => "failing-gen",
        Noise::ImportCa(_) => "import-ca",
        Noise::ParseSpki(_) => "parse-spki",
        Noise::ReloadKey(_) => "reload-key",
        Noise::EditClone { .. } => "edit-clone",
        Noise::DebugFmt { .. } => "debug-fmt",
        Noise::Export(_) => "export",
        Noise::KeyId(_) => "key-id",
        Noise::Rollover(_) => "rollover",
        Noise::Flood { .. } => "flood-of-issuers",
    }
}

/// What is compared between repetitions of an observed call.
#[derive(Clone, Debug, Serialize, Deserialize)]
pub struct Observed {
    pub class: String,
    pub tbs: Option<Vec<u8>>,
    /// complete DER, only when the signature scheme is deterministic
    pub full: Option<Vec<u8>>,
}

impl Observed {
    pub fn of(w: &World, op: &Op, r: &crate::world::OpResult) -> Observed {
        match &r.ret {
            Ret::Ok(d) => {
                let tbs = der::split_signed(d).ok().map(|s| s.tbs.raw.to_vec());
                let signer = r.artefacts.last().map(|a| a.signer);
                let det = signer.map(|s| w.keys[s].sim.alg.deterministic_sig()).unwrap_or(false);
                let _ = op;
                Observed { class: "ok".into(), tbs, full: if det { Some(d.clone()) } else { None } }
            }
            Ret::Err(e) => Observed { class: format!("err:{e}"), tbs: None, full: None },
            Ret::Panic(_) => Observed { class: "panic".into(), tbs: None, full: None },
            Ret::Skipped(s) => Observed { class: format!("skipped:{s}"), tbs: None, full: None },
        }
    }
    pub fn tag(&self) -> String {
        format!(
            "{} tbs={} full={}",
            self.class,
            self.tbs.as_ref().map(|t| simcore::sha256::short(t)).unwrap_or_else(|| "-".into()),
            self.full.as_ref().map(|t| simcore::sha256::short(t)).unwrap_or_else(|| "-".into())
        )
    }
    pub fn same_as(&self, other: &Observed) -> Result<(), (String, String)> {
        if self.class != other.class {
            return Err(("c15-outcome-differs".into(), format!("first execution gave {}, this one {}", self.class, other.class)));
        }
        if self.tbs != other.tbs {
            return Err((
                "c15-tbs-differs".into(),
                format!(
                    "to-be-signed bytes differ from the first execution: {} vs {}{}",
                    self.tbs.as_ref().map(|t| simcore::sha256::short(t)).unwrap_or_default(),
                    other.tbs.as_ref().map(|t| simcore::sha256::short(t)).unwrap_or_default(),
                    first_diff(self.tbs.as_deref(), other.tbs.as_deref())
                ),
            ));
        }
        if self.full.is_some() && other.full.is_some() && self.full != other.full {
            return Err(("c15-output-differs".into(), "complete DER differs although the signature scheme is deterministic".into()));
        }
        Ok(())
    }
}

fn first_diff(a: Option<&[u8]>, b: Option<&[u8]>) -> String {
    match (a, b) {
        (Some(a), Some(b)) => {
            let i = a.iter().zip(b.iter()).position(|(x, y)| x != y).unwrap_or(a.len().min(b.len()));
            format!(" (lengths {} / {}, first difference at offset {})", a.len(), b.len(), i)
        }
        _ => String::new(),
    }
}

/// The observable state of every shared key and issuer, taken once after set-up.
pub struct Snapshot {
    keys: Vec<(Vec<u8>, String, Vec<u8>, Option<Vec<u8>>)>,
    issuers: Vec<(Vec<u8>, rcgen::CertificateParams, Vec<u8>)>,
}

impl Snapshot {
    pub fn take(w: &World) -> Snapshot {
        Snapshot {
            keys: w
                .keys
                .iter()
                .map(|k| {
                    (
                        k.kp.public_key_raw().to_vec(),
                        format!("{:?}", k.kp.algorithm()),
                        k.kp.public_key_der(),
                        if k.is_remote() { None } else { Some(k.kp.serialize_der()) },
                    )
                })
                .collect(),
            issuers: w.issuers.iter().map(|i| (i.cert.der().to_vec(), i.recipe.build(), i.cert.key_identifier())).collect(),
        }
    }
    pub fn check(&self, w: &World) -> Result<(), String> {
        for (i, (k, s)) in w.keys.iter().zip(self.keys.iter()).enumerate() {
            if k.kp.public_key_raw() != s.0.as_slice() || k.kp.public_key_raw() != k.sim.raw_pub.as_slice() {
                return Err(format!("key {i}: raw public key changed"));
            }
            if format!("{:?}", k.kp.algorithm()) != s.1 {
                return Err(format!("key {i}: algorithm changed from {} to {:?}", s.1, k.kp.algorithm()));
            }
            if k.kp.public_key_der() != s.2 {
                return Err(format!("key {i}: SubjectPublicKeyInfo changed"));
            }
            if let Some(pk8) = &s.3 {
                if &k.kp.serialize_der() != pk8 {
                    return Err(format!("key {i}: serialized private key changed"));
                }
            }
        }
        for (i, (iss, s)) in w.issuers.iter().zip(self.issuers.iter()).enumerate() {
            if iss.cert.der().as_ref() != s.0.as_slice() {
                return Err(format!("issuer {i}: certificate DER changed"));
            }
            if *iss.cert.params() != s.1 {
                return Err(format!("issuer {i}: parameters changed: {:?} vs {:?}", iss.cert.params(), s.1));
            }
            if iss.cert.key_identifier() != s.2 {
                return Err(format!("issuer {i}: key identifier changed"));
            }
        }
        Ok(())
    }
}

fn noise(w: &mut World, n: &Noise) -> String {
    match n {
        Noise::Gen(op) => ret_tag(&w.exec_ro(op).0.ret),
        Noise::FailingGen(op, variant) => {
            // the next signer call (if this operation makes one) fails
            let k = w.bus.n_calls();
            // variant 255 stands for a signer that panics instead of returning an error
            let fault = if *variant == 255 { SignerFault::Panic } else { SignerFault::Err(*variant) };
            w.bus.0.lock().unwrap().plan.insert(k, fault);
            let r = w.exec_ro(op).0;
            // (a poisoned bus mutex would be this harness's own problem: the signer stores its
            // outcome before it panics and never panics while holding the lock)
            w.bus.0.lock().unwrap().plan.remove(&k);
            format!("{} fired={}", ret_tag(&r.ret), w.bus.n_calls() > k)
        }
        #[cfg(feature = "x509-parser")]
        Noise::ImportCa(i) => {
            let Some(iss) = w.issuers.get(*i) else { return "skip".into() };
            match rcgen::CertificateParams::from_ca_cert_der(iss.cert.der()) {
                Ok(p) => format!("ok dn={}", simcore::sha256::short(format!("{:?}", p.distinguished_name.iter().collect::<Vec<_>>()).as_bytes())),
                Err(e) => format!("err:{}", crate::world::err_name(&e)),
            }
        }
        #[cfg(feature = "x509-parser")]
        Noise::ParseSpki(k) => {
            let Some(key) = w.keys.get(*k) else { return "skip".into() };
            match rcgen::SubjectPublicKeyInfo::from_der(&key.sim.spki) {
                Ok(_) => "ok".into(),
                Err(e) => format!("err:{}", crate::world::err_name(&e)),
            }
        }
        #[cfg(not(feature = "x509-parser"))]
        Noise::ImportCa(_) | Noise::ParseSpki(_) => "skip:no-x509-parser".into(),
        Noise::ReloadKey(k) => {
            let Some(key) = w.keys.get(*k) else { return "skip".into() };
            match &key.custody {
                #[cfg(feature = "crypto")]
                Custody::Local(l) => match crate::keys::load_local(&key.sim, *l) {
                    Ok(kp) => format!("ok same_pub={}", kp.public_key_raw() == key.kp.public_key_raw()),
                    Err(e) => format!("err:{}", crate::world::err_name(&e)),
                },
                _ => "skip:remote".into(),
            }
        }
        Noise::EditClone { issuer, ty, val } => {
            let Some(iss) = w.issuers.get(*issuer) else { return "skip".into() };
            let mut p = iss.cert.params().clone();
            match val {
                Some(v) => p.distinguished_name.push(ty.build(), v.build()),
                None => {
                    p.distinguished_name.remove(ty.build());
                }
            }
            p.subject_alt_names.clear();
            p.key_usages.clear();
            format!("ok n={}", p.distinguished_name.iter().count())
        }
        Noise::DebugFmt { key, issuer } => {
            let mut n = 0;
            if let Some(k) = w.keys.get(*key) {
                n += format!("{:?}", k.kp).len();
            }
            if let Some(i) = w.issuers.get(*issuer) {
                n += format!("{:?}{:?}", i.cert, i.cert.params()).len();
            }
            format!("ok {}", n > 0)
        }
        Noise::Export(k) => {
            let Some(key) = w.keys.get(*k) else { return "skip".into() };
            let mut d = key.kp.public_key_der();
            #[cfg(feature = "pem")]
            d.extend_from_slice(key.kp.public_key_pem().as_bytes());
            if !key.is_remote() {
                d.extend_from_slice(&key.kp.serialize_der());
                #[cfg(feature = "pem")]
                d.extend_from_slice(key.kp.serialize_pem().as_bytes());
            }
            format!("ok {}", simcore::sha256::short(&d))
        }
        Noise::KeyId(i) => {
            let Some(iss) = w.issuers.get(*i) else { return "skip".into() };
            format!("ok {}", simcore::sha256::short(&iss.cert.key_identifier()))
        }
        Noise::Flood { n, seed } => {
            let bus = crate::signer::Bus::new(BTreeMap::new());
            let mut digest = Vec::new();
            let mut ok = 0u32;
            for i in 0..*n {
                let mut m = seed.to_le_bytes().to_vec();
                m.extend_from_slice(&i.to_le_bytes());
                let spec = crate::keys::KeySpec { alg: simcore::Alg::Ed25519, material: simcore::sha256::hex(&simcore::sha256::sha256(&m)) };
                let key = std::sync::Arc::new(crate::keys::SimKey::from_spec(&spec));
                let kp = crate::signer::remote_key_pair(10_000 + i as usize, key, bus.clone(), None);
                let mut p = rcgen::CertificateParams::default();
                p.distinguished_name.push(rcgen::DnType::CommonName, format!("flood CA {i}"));
                p.is_ca = rcgen::IsCa::Ca(rcgen::BasicConstraints::Unconstrained);
                p.key_usages = vec![rcgen::KeyUsagePurpose::KeyCertSign, rcgen::KeyUsagePurpose::CrlSign];
                let Ok(ca) = p.self_signed(&kp) else { continue };
                let crl = rcgen::CertificateRevocationListParams {
                    this_update: time::OffsetDateTime::from_unix_timestamp(1_700_000_000).unwrap(),
                    next_update: time::OffsetDateTime::from_unix_timestamp(1_700_086_400).unwrap(),
                    crl_number: rcgen::SerialNumber::from(i as u64 + 1),
                    issuing_distribution_point: None,
                    revoked_certs: vec![],
                    #[cfg(feature = "crypto")]
                    key_identifier_method: rcgen::KeyIdMethod::Sha256,
                    #[cfg(not(feature = "crypto"))]
                    key_identifier_method: rcgen::KeyIdMethod::PreSpecified(simcore::sha256::sha256(&m)[..20].to_vec()),
                }
                .signed_by(&ca, &kp);
                let mut lp = rcgen::CertificateParams::default();
                lp.distinguished_name.push(rcgen::DnType::CommonName, "flood leaf");
                lp.use_authority_key_identifier_extension = true;
                let leaf = lp.signed_by(&kp, &ca, &kp);
                if let (Ok(c), Ok(l)) = (crl, leaf) {
                    ok += 1;
                    if i % 97 == 0 {
                        digest.extend_from_slice(&simcore::sha256::sha256(c.der())[..4]);
                        digest.extend_from_slice(&simcore::sha256::sha256(l.der())[..4]);
                    }
                }
            }
            format!("ok issuers={ok} {}", simcore::sha256::short(&digest))
        }
        Noise::Rollover(op) => {
            let Op::Issue { issuer, subject, recipe, .. } = op else { return "skip".into() };
            let (Some(iss), Some(sk)) = (w.issuers.get(*issuer), w.keys.get(*subject)) else { return "skip".into() };
            let k1 = iss.key;
            let alg = w.keys[k1].sim.alg;
            let Some(k2) = (0..w.keys.len()).find(|&k| k != k1 && w.keys[k].sim.alg == alg && w.keys[k].sim.raw_pub != w.keys[k1].sim.raw_pub) else {
                return "skip:no second key of that algorithm".into();
            };
            let ca2 = match iss.recipe.build().self_signed(&w.keys[k2].kp) {
                Ok(c) => c,
                Err(e) => return format!("err:{}", crate::world::err_name(&e)),
            };
            match recipe.build().signed_by(&sk.kp, &ca2, &w.keys[k2].kp) {
                Ok(c) => format!("ok tbs={}", simcore::der::split_signed(c.der()).map(|s| simcore::sha256::short(s.tbs.raw)).unwrap_or_default()),
                Err(e) => format!("err:{}", crate::world::err_name(&e)),
            }
        }
    }
}

// =========================================================================================
// L2 — thread schedules under shuttle
// =========================================================================================

#[derive(Clone, Debug, Serialize, Deserialize)]
pub struct ShuttleTrace {
    pub hash_seed: u64,
    pub slots: Vec<KeySlotSpec>,
    pub setup: Vec<Op>,
    /// operations of each thread
    pub threads: Vec<Vec<Op>>,
    /// 0 = random scheduler, d > 0 = PCT with depth d
    pub pct_depth: usize,
    pub sched_seed: u64,
    pub iterations: usize,
    /// yield to the scheduler inside the signer seam (default). Switched off for the retry of a
    /// run that hung: shuttle only sees its own primitives, so code under test that holds a std
    /// lock across the signer call blocks the whole (single-threaded) scheduler when another
    /// simulated thread wants that lock — an artefact of the simulator, not a deadlock of the code.
    #[serde(default = "yes")]
    pub seam_yields: bool,
}

fn yes() -> bool {
    true
}

#[cfg(feature = "shuttle")]
pub struct PurityShuttle;

#[cfg(feature = "shuttle")]
impl Engine for PurityShuttle {
    type Trace = ShuttleTrace;
    const NAME: &'static str = "purity-shuttle";

    fn generate(run_seed: u64, _index: u64, tier: Tier, _mode: &str) -> ShuttleTrace {
        let mut r = Rng::new(run_seed);
        let hash_seed = r.next_u64();
        let crypto = cfg!(feature = "crypto");
        let (mut slots, setup, pool) = gen_world_and_ops(&mut r, crypto, 0);
        // the signer seam is where shuttle can switch threads: make sure it is in play
        if !slots.iter().any(|s| s.custody == Custody::Remote) {
            let i = r.usize(slots.len());
            slots[i].custody = Custody::Remote;
        }
        let n_threads = r.range(2, 4) as usize;
        let threads: Vec<Vec<Op>> = (0..n_threads)
            .map(|_| (0..r.range(1, 4)).map(|_| if pool.is_empty() { setup[0].clone() } else { r.pick(&pool).clone() }).map(|mut o| { unstore(&mut o); o }).collect())
            .collect();
        ShuttleTrace {
            hash_seed,
            slots,
            setup,
            threads,
            pct_depth: if r.bool() { 0 } else { r.range(2, 4) as usize },
            sched_seed: r.next_u64(),
            iterations: if tier == Tier::Thorough { 40 } else { 12 },
            seam_yields: true,
        }
    }

    const WATCHDOG_S: u64 = 30;

    fn on_hang(t: &ShuttleTrace) -> Option<ShuttleTrace> {
        if !t.seam_yields {
            return None;
        }
        let mut c = t.clone();
        c.seam_yields = false;
        Some(c)
    }

    fn execute(t: &ShuttleTrace) -> Outcome {
        use std::sync::{Arc, Mutex};
        let mut o = Outcome::default();
        let problems: Arc<Mutex<Vec<(String, String)>>> = Arc::new(Mutex::new(Vec::new()));
        let stats: Arc<Mutex<(u64, u64, std::collections::BTreeSet<u64>, Vec<String>)>> =
            Arc::new(Mutex::new((0, 0, Default::default(), Vec::new())));
        let tt = t.clone();
        let problems2 = problems.clone();
        let stats2 = stats.clone();
        let body = move || {
            let t = &tt;
            #[cfg(rcgen_verif)]
            rcgen::verif_hooks::set_hash_seed(t.hash_seed);
            // the HSM session: a shuttle mutex plus explicit scheduling points around every signature
            let session = Arc::new(shuttle::sync::Mutex::new(0u64));
            let events: Arc<Mutex<Vec<(usize, usize, bool)>>> = Arc::new(Mutex::new(Vec::new()));
            let ev2 = events.clone();
            let seam_yields = t.seam_yields;
            let hook: crate::signer::SeamHook = Arc::new(move |slot: usize, exit: bool| {
                if !seam_yields {
                    ev2.lock().unwrap().push((0, slot, exit));
                    return;
                }
                let me = shuttle::thread::current().id();
                let tid = format!("{:?}", me).bytes().fold(0usize, |a, b| a.wrapping_mul(31).wrapping_add(b as usize));
                if !exit {
                    let mut g = session.lock().unwrap();
                    *g += 1;
                    drop(g);
                }
                shuttle::thread::sleep(std::time::Duration::ZERO);
                ev2.lock().unwrap().push((tid, slot, exit));
            });
            let mut w = match World::build(&t.slots, BTreeMap::new(), Some(hook)) {
                Ok(w) => w,
                Err(_) => return,
            };
            for op in &t.setup {
                w.exec(op);
            }
            if w.issuers.is_empty() {
                return;
            }
            let snap = Snapshot::take(&w);
            let calls_setup = w.bus.n_calls();
            // sequential reference of every operation, computed before the threads start
            let reference: Vec<Vec<Observed>> =
                t.threads.iter().map(|ops| ops.iter().map(|op| { let r = w.exec_ro(op).0; Observed::of(&w, op, &r) }).collect()).collect();
            let calls_ref = w.bus.n_calls();
            events.lock().unwrap().clear();
            let w = Arc::new(w);
            let mut handles = Vec::new();
            for (ti, ops) in t.threads.iter().cloned().enumerate() {
                let w = w.clone();
                let reference = reference[ti].clone();
                let problems = problems2.clone();
                let hs = t.hash_seed ^ (ti as u64 + 1);
                handles.push(shuttle::thread::spawn(move || {
                    #[cfg(rcgen_verif)]
                    rcgen::verif_hooks::set_hash_seed(hs);
                    let _ = hs;
                    for (k, op) in ops.iter().enumerate() {
                        let r = w.exec_ro(op).0;
                        let now = Observed::of(&w, op, &r);
                        if r.params_preserved == Some(false) {
                            problems.lock().unwrap().push(("c15-params-altered".into(), format!("thread {ti} op {k} {}: {}", op.kind(), clip(&r.params_detail))));
                        }
                        if let Err((c, d)) = reference[k].same_as(&now) {
                            problems.lock().unwrap().push((c, format!("thread {ti} op {k} {} under concurrency: {d}", op.kind())));
                        }
                        shuttle::thread::sleep(std::time::Duration::ZERO);
                    }
                }));
            }
            for h in handles {
                let _ = h.join();
            }
            if let Err(d) = snap.check(&w) {
                problems2.lock().unwrap().push(("c15-shared-state-altered".into(), format!("after concurrent generation: {d}")));
            }
            let calls_conc = w.bus.n_calls() - calls_ref;
            if calls_conc != calls_ref - calls_setup {
                problems2.lock().unwrap().push((
                    "c15-signer-call-count".into(),
                    format!("the sequential reference made {} signer calls, the concurrent execution {}", calls_ref - calls_setup, calls_conc),
                ));
            }
            let mut s = stats2.lock().unwrap();
            s.0 += 1;
            s.1 += calls_conc as u64;
            let evs = events.lock().unwrap();
            // interleaving measure: the order of (thread, slot, enter/exit) events at the seam
            let mut first_seen: Vec<usize> = Vec::new();
            let mut h: u64 = 0xcbf29ce484222325;
            for (tid, slot, exit) in evs.iter() {
                let idx = match first_seen.iter().position(|x| x == tid) {
                    Some(i) => i,
                    None => {
                        first_seen.push(*tid);
                        first_seen.len() - 1
                    }
                };
                for b in [idx as u64, *slot as u64, *exit as u64] {
                    h = (h ^ b).wrapping_mul(0x100000001b3);
                }
            }
            s.2.insert(h);
            if s.3.len() < 4 {
                s.3.push(format!("{} seam events, digest {:016x}", evs.len(), h));
            }
        };
        let mut cfg = shuttle::Config::new();
        cfg.stack_size = 1 << 20;
        cfg.failure_persistence = shuttle::FailurePersistence::None;
        let res = if t.pct_depth == 0 {
            let s = shuttle::scheduler::RandomScheduler::new_from_seed(t.sched_seed, t.iterations);
            guarded(|| shuttle::Runner::new(s, cfg).run(body))
        } else {
            let s = shuttle::scheduler::PctScheduler::new_from_seed(t.sched_seed, t.pct_depth, t.iterations);
            guarded(|| shuttle::Runner::new(s, cfg).run(body))
        };
        let st = stats.lock().unwrap();
        o.count("schedules", st.0);
        o.count("concurrent_signer_calls", st.1);
        for h in &st.2 {
            o.covered("interleavings_at_signer_seam", *h);
        }
        o.count("threads", t.threads.len() as u64 * st.0);
        for l in &st.3 {
            o.ev(l.clone());
        }
        o.ev(format!("schedules={} interleavings={}", st.0, st.2.len()));
        if let Err(p) = res {
            o.violate("c15-panic-under-concurrency", clip(&p));
        }
        if let Some((c, d)) = problems.lock().unwrap().first().cloned() {
            o.violate(&c, d);
        }
        o.nontrivial = st.0 > 0 && t.threads.len() >= 2;
        o
    }

    fn shrink(t: &ShuttleTrace) -> Vec<ShuttleTrace> {
        let mut v = Vec::new();
        if t.threads.len() > 2 {
            for i in 0..t.threads.len() {
                let mut c = t.clone();
                c.threads.remove(i);
                v.push(c);
            }
        }
        for i in 0..t.threads.len() {
            if t.threads[i].len() > 1 {
                for k in 0..t.threads[i].len() {
                    let mut c = t.clone();
                    c.threads[i].remove(k);
                    v.push(c);
                }
            }
            for k in 0..t.threads[i].len() {
                for s in shrink_op(&t.threads[i][k]).into_iter().take(3) {
                    let mut c = t.clone();
                    c.threads[i][k] = s;
                    v.push(c);
                }
            }
        }
        if t.iterations > 1 {
            let mut c = t.clone();
            c.iterations = t.iterations / 2;
            v.push(c);
        }
        v
    }
}
