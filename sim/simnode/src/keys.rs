//! Key material as the simulator holds it: (PKCS#8, expected algorithm, raw public key,
//! SPKI) built with OpenSSL and by hand, independently of what rcgen later reports.
//! Also the independent verifier (OpenSSL) and the loaders into rcgen.

use openssl::bn::{BigNum, BigNumContext};
use openssl::ec::{EcGroup, EcKey, EcPoint, PointConversionForm};
use openssl::hash::MessageDigest;
use openssl::nid::Nid;
use openssl::pkey::{Id, PKey, Private};
use openssl::sign::{Signer, Verifier};
use serde::{Deserialize, Serialize};
use simcore::{Alg, Rng};

use crate::recipe::tlv;

static RSA_POOL: [&[u8]; 55] = [
    include_bytes!("../../../fixtures/rsa/rsa2048a.pk8.der"),
    include_bytes!("../../../fixtures/rsa/rsa2048b.pk8.der"),
    include_bytes!("../../../fixtures/rsa/rsa3072a.pk8.der"),
    include_bytes!("../../../fixtures/rsa/rsa4096a.pk8.der"),
    // 8192 bits: above what ring loads as a private key; drawn on aws-lc-rs builds only and
    // never for traces that several back ends must share
    include_bytes!("../../../fixtures/rsa/rsa8192a.pk8.der"),
    // public exponent 2^32 + 1: the widest both back ends document as acceptable (33 bits)
    include_bytes!("../../../fixtures/rsa/rsa2048e33.pk8.der"),
    // 9216 bits: larger than either back end loads; only ever held by a simulated remote
    // signer (an HSM is free to hold such a key), never drawn by `draw` / `draw_common`
    include_bytes!("../../../fixtures/rsa/rsa9216a.pk8.der"),
    // 1536 bits, forty-eight of them (as OpenSSL made them, none selected): below what either back end loads or generates, but an HSM may
    // still hold such legacy keys and OpenSSL verifies their signatures; remote signers only
    include_bytes!("../../../fixtures/rsa/rsa1536_00.pk8.der"),
    include_bytes!("../../../fixtures/rsa/rsa1536_01.pk8.der"),
    include_bytes!("../../../fixtures/rsa/rsa1536_02.pk8.der"),
    include_bytes!("../../../fixtures/rsa/rsa1536_03.pk8.der"),
    include_bytes!("../../../fixtures/rsa/rsa1536_04.pk8.der"),
    include_bytes!("../../../fixtures/rsa/rsa1536_05.pk8.der"),
    include_bytes!("../../../fixtures/rsa/rsa1536_06.pk8.der"),
    include_bytes!("../../../fixtures/rsa/rsa1536_07.pk8.der"),
    include_bytes!("../../../fixtures/rsa/rsa1536_08.pk8.der"),
    include_bytes!("../../../fixtures/rsa/rsa1536_09.pk8.der"),
    include_bytes!("../../../fixtures/rsa/rsa1536_10.pk8.der"),
    include_bytes!("../../../fixtures/rsa/rsa1536_11.pk8.der"),
    include_bytes!("../../../fixtures/rsa/rsa1536_12.pk8.der"),
    include_bytes!("../../../fixtures/rsa/rsa1536_13.pk8.der"),
    include_bytes!("../../../fixtures/rsa/rsa1536_14.pk8.der"),
    include_bytes!("../../../fixtures/rsa/rsa1536_15.pk8.der"),
    include_bytes!("../../../fixtures/rsa/rsa1536_16.pk8.der"),
    include_bytes!("../../../fixtures/rsa/rsa1536_17.pk8.der"),
    include_bytes!("../../../fixtures/rsa/rsa1536_18.pk8.der"),
    include_bytes!("../../../fixtures/rsa/rsa1536_19.pk8.der"),
    include_bytes!("../../../fixtures/rsa/rsa1536_20.pk8.der"),
    include_bytes!("../../../fixtures/rsa/rsa1536_21.pk8.der"),
    include_bytes!("../../../fixtures/rsa/rsa1536_22.pk8.der"),
    include_bytes!("../../../fixtures/rsa/rsa1536_23.pk8.der"),
    include_bytes!("../../../fixtures/rsa/rsa1536_24.pk8.der"),
    include_bytes!("../../../fixtures/rsa/rsa1536_25.pk8.der"),
    include_bytes!("../../../fixtures/rsa/rsa1536_26.pk8.der"),
    include_bytes!("../../../fixtures/rsa/rsa1536_27.pk8.der"),
    include_bytes!("../../../fixtures/rsa/rsa1536_28.pk8.der"),
    include_bytes!("../../../fixtures/rsa/rsa1536_29.pk8.der"),
    include_bytes!("../../../fixtures/rsa/rsa1536_30.pk8.der"),
    include_bytes!("../../../fixtures/rsa/rsa1536_31.pk8.der"),
    include_bytes!("../../../fixtures/rsa/rsa1536_32.pk8.der"),
    include_bytes!("../../../fixtures/rsa/rsa1536_33.pk8.der"),
    include_bytes!("../../../fixtures/rsa/rsa1536_34.pk8.der"),
    include_bytes!("../../../fixtures/rsa/rsa1536_35.pk8.der"),
    include_bytes!("../../../fixtures/rsa/rsa1536_36.pk8.der"),
    include_bytes!("../../../fixtures/rsa/rsa1536_37.pk8.der"),
    include_bytes!("../../../fixtures/rsa/rsa1536_38.pk8.der"),
    include_bytes!("../../../fixtures/rsa/rsa1536_39.pk8.der"),
    include_bytes!("../../../fixtures/rsa/rsa1536_40.pk8.der"),
    include_bytes!("../../../fixtures/rsa/rsa1536_41.pk8.der"),
    include_bytes!("../../../fixtures/rsa/rsa1536_42.pk8.der"),
    include_bytes!("../../../fixtures/rsa/rsa1536_43.pk8.der"),
    include_bytes!("../../../fixtures/rsa/rsa1536_44.pk8.der"),
    include_bytes!("../../../fixtures/rsa/rsa1536_45.pk8.der"),
    include_bytes!("../../../fixtures/rsa/rsa1536_46.pk8.der"),
    include_bytes!("../../../fixtures/rsa/rsa1536_47.pk8.der"),
];
pub const RSA_POOL_REMOTE_ONLY: u8 = 6;
/// first index and number of the small remote-only keys
pub const RSA_POOL_SMALL_REMOTE_ONLY: (u8, u8) = (7, 48);

/// How a key is provisioned; part of the explicit trace.
#[derive(Clone, Debug, PartialEq, Eq, Serialize, Deserialize)]
pub struct KeySpec {
    pub alg: Alg,
    /// EC / Ed25519: hex seed material; RSA: pool index as one byte
    pub material: String,
}

impl KeySpec {
    /// Like `draw`, independent of the generating build (for traces shared between back ends).
    pub fn draw_common(r: &mut Rng, alg: Alg) -> KeySpec {
        let material = if alg.is_rsa() {
            simcore::sha256::hex(&[*r.pick(&[0u8, 0, 0, 1, 1, 5, 2, 3])])
        } else {
            simcore::sha256::hex(&r.bytes(32))
        };
        KeySpec { alg, material }
    }

    pub fn draw(r: &mut Rng, alg: Alg) -> KeySpec {
        let material = if alg.is_rsa() {
            // bias to the small keys, the large ones are slow
            let mut i = *r.pick(&[0u8, 0, 0, 1, 1, 5, 2, 3]);
            if cfg!(feature = "aws_lc_rs") && r.chance(1, 24) {
                i = 4;
            }
            simcore::sha256::hex(&[i])
        } else {
            simcore::sha256::hex(&r.bytes(32))
        };
        KeySpec { alg, material }
    }
}

pub struct SimKey {
    pub spec: KeySpec,
    pub alg: Alg,
    pub pkcs8: Vec<u8>,
    /// the legacy encoding of the same key: PKCS#1 RSAPrivateKey or SEC1 ECPrivateKey (none for Ed25519)
    pub legacy: Option<Vec<u8>>,
    /// raw public key in the format rcgen's `public_key_raw` documents
    pub raw_pub: Vec<u8>,
    /// SubjectPublicKeyInfo assembled by hand from the algid table and raw_pub
    pub spki: Vec<u8>,
    pkey: PKey<Private>,
}

impl SimKey {
    /// The same RSA key labelled with another signature hash (the public key does not change).
    pub fn with_alg(&self, alg: Alg) -> SimKey {
        assert!(self.alg.is_rsa() && alg.is_rsa());
        SimKey {
            spec: KeySpec { alg, material: self.spec.material.clone() },
            alg,
            pkcs8: self.pkcs8.clone(),
            legacy: self.legacy.clone(),
            raw_pub: self.raw_pub.clone(),
            spki: self.spki.clone(),
            pkey: self.pkey.clone(),
        }
    }
}

fn curve(alg: Alg) -> Nid {
    match alg {
        Alg::P256 => Nid::X9_62_PRIME256V1,
        Alg::P384 => Nid::SECP384R1,
        Alg::P521 => Nid::SECP521R1,
        _ => unreachable!(),
    }
}

fn digest(alg: Alg) -> Option<MessageDigest> {
    match alg {
        Alg::RsaSha256 | Alg::P256 => Some(MessageDigest::sha256()),
        Alg::RsaSha384 | Alg::P384 => Some(MessageDigest::sha384()),
        Alg::RsaSha512 | Alg::P521 => Some(MessageDigest::sha512()),
        Alg::Ed25519 => None,
    }
}

pub fn make_spki(alg: Alg, raw_pub: &[u8]) -> Vec<u8> {
    let mut bits = vec![0u8];
    bits.extend_from_slice(raw_pub);
    let mut body = alg.spki_alg_id().to_vec();
    body.extend_from_slice(&tlv(0x03, &bits));
    tlv(0x30, &body)
}

impl SimKey {
    pub fn from_spec(spec: &KeySpec) -> SimKey {
        let alg = spec.alg;
        let mat = simcore::sha256::unhex(&spec.material).expect("key material hex");
        let pkey: PKey<Private> = if alg.is_rsa() {
            PKey::private_key_from_pkcs8(RSA_POOL[mat[0] as usize % RSA_POOL.len()]).expect("rsa fixture")
        } else if alg == Alg::Ed25519 {
            PKey::private_key_from_raw_bytes(&mat[..32], Id::ED25519).expect("ed25519 from seed")
        } else {
            let group = EcGroup::from_curve_name(curve(alg)).unwrap();
            let mut ctx = BigNumContext::new().unwrap();
            let mut order = BigNum::new().unwrap();
            group.order(&mut order, &mut ctx).unwrap();
            // stretch the material to the order size, reduce, avoid zero
            let mut wide = Vec::new();
            let mut c = 0u8;
            while wide.len() < 80 {
                let mut inp = mat.clone();
                inp.push(c);
                wide.extend_from_slice(&simcore::sha256::sha256(&inp));
                c += 1;
            }
            let x = BigNum::from_slice(&wide).unwrap();
            let mut one = BigNum::from_u32(1).unwrap();
            let mut om1 = BigNum::new().unwrap();
            om1.checked_sub(&order, &one).unwrap();
            let mut d = BigNum::new().unwrap();
            d.nnmod(&x, &om1, &mut ctx).unwrap();
            let mut d1 = BigNum::new().unwrap();
            d1.checked_add(&d, &one).unwrap();
            one.clear();
            let mut q = EcPoint::new(&group).unwrap();
            q.mul_generator(&group, &d1, &ctx).unwrap();
            let ec = EcKey::from_private_components(&group, &d1, &q).unwrap();
            PKey::from_ec_key(ec).unwrap()
        };
        let pkcs8 = pkey.private_key_to_pkcs8().expect("to pkcs8");
        let raw_pub = if alg.is_rsa() {
            pkey.rsa().unwrap().public_key_to_der_pkcs1().unwrap()
        } else if alg == Alg::Ed25519 {
            pkey.raw_public_key().unwrap()
        } else {
            let ec = pkey.ec_key().unwrap();
            let mut ctx = BigNumContext::new().unwrap();
            ec.public_key().to_bytes(ec.group(), PointConversionForm::UNCOMPRESSED, &mut ctx).unwrap()
        };
        let spki = make_spki(alg, &raw_pub);
        let legacy = if alg.is_rsa() {
            Some(pkey.rsa().unwrap().private_key_to_der().unwrap())
        } else if alg.is_ecdsa() {
            Some(pkey.ec_key().unwrap().private_key_to_der().unwrap())
        } else {
            None
        };
        SimKey { spec: spec.clone(), alg, pkcs8, legacy, raw_pub, spki, pkey }
    }

    /// Signature as the algorithm's X.509 signatureValue (ECDSA: DER Ecdsa-Sig-Value).
    pub fn sign(&self, msg: &[u8]) -> Vec<u8> {
        let mut s = match digest(self.alg) {
            Some(md) => Signer::new(md, &self.pkey).unwrap(),
            None => Signer::new_without_digest(&self.pkey).unwrap(),
        };
        s.sign_oneshot_to_vec(msg).expect("openssl sign")
    }
}

/// Independent verification: does `sig` verify over `msg` under the key in `spki` with
/// the algorithm `alg`?
pub fn openssl_verify(alg: Alg, spki: &[u8], msg: &[u8], sig: &[u8]) -> Result<bool, String> {
    let pk = PKey::public_key_from_der(spki).map_err(|e| format!("openssl cannot load SPKI: {e}"))?;
    let mut v = match digest(alg) {
        Some(md) => Verifier::new(md, &pk).map_err(|e| e.to_string())?,
        None => Verifier::new_without_digest(&pk).map_err(|e| e.to_string())?,
    };
    match v.verify_oneshot(sig, msg) {
        Ok(b) => Ok(b),
        Err(_) => Ok(false), // malformed signature encodings surface as errors
    }
}

pub fn sig_alg(alg: Alg) -> &'static rcgen::SignatureAlgorithm {
    match alg {
        Alg::RsaSha256 => &rcgen::PKCS_RSA_SHA256,
        Alg::RsaSha384 => &rcgen::PKCS_RSA_SHA384,
        Alg::RsaSha512 => &rcgen::PKCS_RSA_SHA512,
        Alg::P256 => &rcgen::PKCS_ECDSA_P256_SHA256,
        Alg::P384 => &rcgen::PKCS_ECDSA_P384_SHA384,
        #[cfg(feature = "aws_lc_rs")]
        Alg::P521 => &rcgen::PKCS_ECDSA_P521_SHA512,
        #[cfg(not(feature = "aws_lc_rs"))]
        Alg::P521 => panic!("P-521 is not offered by this build"),
        Alg::Ed25519 => &rcgen::PKCS_ED25519,
    }
}

/// Algorithms this build of rcgen can sign with locally.
pub fn local_algs() -> Vec<Alg> {
    #[allow(unused_mut)]
    let mut v: Vec<Alg> = Vec::new();
    #[cfg(feature = "crypto")]
    v.extend_from_slice(&[Alg::RsaSha256, Alg::RsaSha384, Alg::RsaSha512, Alg::P256, Alg::P384, Alg::Ed25519]);
    #[cfg(feature = "aws_lc_rs")]
    v.push(Alg::P521);
    v
}

/// Algorithms a remote signer may announce to this build.
pub fn remote_algs() -> Vec<Alg> {
    #[allow(unused_mut)]
    let mut v = vec![Alg::RsaSha256, Alg::RsaSha384, Alg::RsaSha512, Alg::P256, Alg::P384, Alg::Ed25519];
    #[cfg(feature = "aws_lc_rs")]
    v.push(Alg::P521);
    v
}

/// Every way a local key can enter rcgen.
#[derive(Clone, Copy, Debug, PartialEq, Eq, Serialize, Deserialize)]
pub enum Loader {
    SliceAuto,
    VecAuto,
    Pkcs8Auto,
    PrivateKeyDerAuto,
    PemAuto,
    Pkcs8DerAlgo,
    DerAlgo,
    Pkcs8PemAlgo,
    PemAlgo,
    // legacy encodings (PKCS#1 / SEC1), accepted by the aws-lc-rs back end only
    LegacyDerAlgo,
    LegacyDerAuto,
    LegacySliceAuto,
    LegacyPemAlgo,
    LegacyPemAuto,
}

impl Loader {
    pub fn is_auto(self) -> bool {
        matches!(
            self,
            Loader::SliceAuto
                | Loader::VecAuto
                | Loader::Pkcs8Auto
                | Loader::PrivateKeyDerAuto
                | Loader::PemAuto
                | Loader::LegacyDerAuto
                | Loader::LegacySliceAuto
                | Loader::LegacyPemAuto
        )
    }
}

pub fn loaders_for(alg: Alg) -> Vec<Loader> {
    #[allow(unused_mut)]
    let mut v = vec![Loader::Pkcs8DerAlgo, Loader::DerAlgo];
    #[cfg(feature = "pem")]
    v.extend_from_slice(&[Loader::Pkcs8PemAlgo, Loader::PemAlgo]);
    // the auto-detecting loaders give RSA keys SHA-256
    if !matches!(alg, Alg::RsaSha384 | Alg::RsaSha512) {
        v.extend_from_slice(&[Loader::SliceAuto, Loader::VecAuto, Loader::Pkcs8Auto, Loader::PrivateKeyDerAuto]);
        #[cfg(feature = "pem")]
        v.push(Loader::PemAuto);
    }
    #[cfg(feature = "aws_lc_rs")]
    if alg != Alg::Ed25519 {
        v.push(Loader::LegacyDerAlgo);
        #[cfg(feature = "pem")]
        v.push(Loader::LegacyPemAlgo);
        if !matches!(alg, Alg::RsaSha384 | Alg::RsaSha512) {
            v.extend_from_slice(&[Loader::LegacyDerAuto, Loader::LegacySliceAuto]);
            #[cfg(feature = "pem")]
            v.push(Loader::LegacyPemAuto);
        }
    }
    v
}

#[cfg(feature = "crypto")]
pub fn load_local(key: &SimKey, how: Loader) -> Result<rcgen::KeyPair, rcgen::Error> {
    use pki_types::{PrivateKeyDer, PrivatePkcs8KeyDer};
    let der = key.pkcs8.as_slice();
    let alg = sig_alg(key.alg);
    match how {
        Loader::SliceAuto => rcgen::KeyPair::try_from(der),
        Loader::VecAuto => rcgen::KeyPair::try_from(der.to_vec()),
        Loader::Pkcs8Auto => rcgen::KeyPair::try_from(&PrivatePkcs8KeyDer::from(der)),
        Loader::PrivateKeyDerAuto => rcgen::KeyPair::try_from(&PrivateKeyDer::Pkcs8(PrivatePkcs8KeyDer::from(der))),
        Loader::Pkcs8DerAlgo => rcgen::KeyPair::from_pkcs8_der_and_sign_algo(&PrivatePkcs8KeyDer::from(der), alg),
        Loader::DerAlgo => {
            rcgen::KeyPair::from_der_and_sign_algo(&PrivateKeyDer::Pkcs8(PrivatePkcs8KeyDer::from(der)), alg)
        }
        #[cfg(feature = "pem")]
        Loader::PemAuto => rcgen::KeyPair::from_pem(&simcore::pem_encode("PRIVATE KEY", der)),
        #[cfg(feature = "pem")]
        Loader::Pkcs8PemAlgo => rcgen::KeyPair::from_pkcs8_pem_and_sign_algo(&simcore::pem_encode("PRIVATE KEY", der), alg),
        #[cfg(feature = "pem")]
        Loader::PemAlgo => rcgen::KeyPair::from_pem_and_sign_algo(&simcore::pem_encode("PRIVATE KEY", der), alg),
        #[cfg(not(feature = "pem"))]
        Loader::PemAuto | Loader::Pkcs8PemAlgo | Loader::PemAlgo | Loader::LegacyPemAlgo | Loader::LegacyPemAuto => {
            panic!("PEM loader on a build without pem")
        }
        Loader::LegacyDerAlgo | Loader::LegacyDerAuto | Loader::LegacySliceAuto => {
            let legacy = key.legacy.as_deref().expect("legacy encoding");
            let pkd = if key.alg.is_rsa() {
                PrivateKeyDer::Pkcs1(pki_types::PrivatePkcs1KeyDer::from(legacy))
            } else {
                PrivateKeyDer::Sec1(pki_types::PrivateSec1KeyDer::from(legacy))
            };
            match how {
                Loader::LegacyDerAlgo => rcgen::KeyPair::from_der_and_sign_algo(&pkd, alg),
                Loader::LegacyDerAuto => rcgen::KeyPair::try_from(&pkd),
                _ => rcgen::KeyPair::try_from(legacy),
            }
        }
        #[cfg(feature = "pem")]
        Loader::LegacyPemAlgo | Loader::LegacyPemAuto => {
            let legacy = key.legacy.as_deref().expect("legacy encoding");
            let label = if key.alg.is_rsa() { "RSA PRIVATE KEY" } else { "EC PRIVATE KEY" };
            let text = simcore::pem_encode(label, legacy);
            if how == Loader::LegacyPemAlgo {
                rcgen::KeyPair::from_pem_and_sign_algo(&text, alg)
            } else {
                rcgen::KeyPair::from_pem(&text)
            }
        }
    }
}
