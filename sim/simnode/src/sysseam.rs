//! In-process handle on the detsys.so system-call seam (seam S2). Present only when the
//! process was started with LD_PRELOAD=detsys.so; looked up with dlsym so that the binary
//! links and runs without it.

use std::ffi::{c_char, c_int, c_long, c_void};
use std::sync::OnceLock;

extern "C" {
    fn dlsym(handle: *mut c_void, symbol: *const c_char) -> *mut c_void;
}

struct Seam {
    arm: unsafe extern "C" fn(c_long, c_int),
    disarm: unsafe extern "C" fn(*mut c_int) -> c_long,
    reseed: unsafe extern "C" fn(u64),
}

static SEAM: OnceLock<Option<Seam>> = OnceLock::new();

fn seam() -> &'static Option<Seam> {
    SEAM.get_or_init(|| unsafe {
        let a = dlsym(std::ptr::null_mut(), c"detsys_arm_getrandom".as_ptr());
        let d = dlsym(std::ptr::null_mut(), c"detsys_disarm".as_ptr());
        let r = dlsym(std::ptr::null_mut(), c"detsys_reseed".as_ptr());
        if a.is_null() || d.is_null() || r.is_null() {
            None
        } else {
            Some(Seam { arm: std::mem::transmute(a), disarm: std::mem::transmute(d), reseed: std::mem::transmute(r) })
        }
    })
}

pub fn present() -> bool {
    seam().is_some()
}

/// Fail the k-th getrandom call from now on (kind: 0 EINTR, 1 short, 2 EIO, 3 EPERM).
pub fn arm_getrandom(k: u32, kind: u8) {
    if let Some(s) = seam() {
        unsafe { (s.arm)(k as c_long, kind as c_int) }
    }
}

/// Count getrandom calls from now on without failing any.
pub fn count_getrandom() {
    if let Some(s) = seam() {
        unsafe { (s.arm)(-1, 0) }
    }
}

/// Stop counting; returns (calls counted, whether the armed fault fired).
pub fn disarm() -> (u32, bool) {
    match seam() {
        Some(s) => {
            let mut fired: c_int = 0;
            let n = unsafe { (s.disarm)(&mut fired) };
            (n as u32, fired != 0)
        }
        None => (0, false),
    }
}

/// Restart the deterministic getrandom stream.
pub fn reseed(seed: u64) {
    if let Some(s) = seam() {
        unsafe { (s.reseed)(seed) }
    }
}
