//! C20 — a distinguished name is an insertion-ordered map under any edit history.
//! Seeded histories of push / remove / get / iter / clone / == / encode against an
//! executable reference model; the map's hash state sits behind seam S3 (hook H1).

use serde::{Deserialize, Serialize};
use simcore::der::{self, Tlv};
use simcore::Rng;

use simcore::engine::{guarded, Engine, Outcome, Tier};
use crate::recipe::{gen_dn_type, gen_dn_value, DnTypeR, DnValueR};

#[derive(Clone, Debug, PartialEq, Eq, Serialize, Deserialize)]
pub enum EncodeHow {
    SelfSigned,
    /// issuer name from slot `issuer`, subject from the op's slot
    SignedBy { issuer: usize },
    Csr,
    /// CRL whose issuer certificate carries the op's slot as subject
    Crl,
    /// the name as a directoryName subtree in a name-constraints extension
    NameConstraint,
}

#[derive(Clone, Debug, PartialEq, Eq, Serialize, Deserialize)]
pub enum DnOp {
    Push { slot: usize, ty: DnTypeR, val: DnValueR },
    Remove { slot: usize, ty: DnTypeR },
    Get { slot: usize, ty: DnTypeR },
    Iter { slot: usize },
    CloneTo { from: usize, to: usize },
    Eq { a: usize, b: usize },
    New { slot: usize },
    /// remove the first attribute and push it back with the same value: same content, new order
    Rotate { slot: usize },
    /// `times` x (push ty; remove ty) on one name object, checked after every step: a long
    /// edit history in compact form
    Churn { slot: usize, ty: DnTypeR, times: u32 },
    /// slot `to` becomes a clone of `from` that differs in one tiny aspect of one attribute:
    /// 0 = case of one ASCII letter, 1 = same text in another string kind, 2 = a trailing space,
    /// 3 = the type replaced by a custom type with the same OID. The two must compare unequal.
    NearTwin { from: usize, to: usize, variant: u8 },
    /// `to.clone_from(&from)` — the other assignment entry point of `Clone`
    CloneFrom { from: usize, to: usize },
    /// the slot starts over from the name inside `CertificateParams::default()` (one common
    /// name, the library's stand-in text) instead of from `DistinguishedName::new()`
    FromDefaultParams { slot: usize },
    /// the slot becomes the subject name *imported* from a certificate made by OpenSSL whose
    /// subject lists these (OID, text) attributes in this order — types may repeat, which no
    /// name built by rcgen itself can express (needs x509-parser; skipped otherwise)
    Import { slot: usize, attrs: Vec<(Vec<u64>, String)> },
    Encode { slot: usize, how: EncodeHow },
}

#[derive(Clone, Debug, Serialize, Deserialize)]
pub struct DnTrace {
    pub hash_seed: u64,
    pub slots: usize,
    pub small: bool,
    pub ops: Vec<DnOp>,
}

pub struct DnSim;

const SMALL_TYPES: [DnTypeR; 3] = [DnTypeR::Cn, DnTypeR::Org, DnTypeR::Country];

fn small_val(i: u64) -> DnValueR {
    if i == 0 {
        DnValueR::Utf8("v0".into())
    } else {
        DnValueR::Printable("V1".into())
    }
}

/// The 9 small-alphabet operations: 6 pushes (3 types x 2 values) and 3 removes.
fn small_op(code: u64) -> DnOp {
    if code < 6 {
        DnOp::Push { slot: 0, ty: SMALL_TYPES[(code / 2) as usize].clone(), val: small_val(code % 2) }
    } else {
        DnOp::Remove { slot: 0, ty: SMALL_TYPES[(code - 6) as usize].clone() }
    }
}

fn small_code(op: &DnOp) -> Option<u64> {
    match op {
        DnOp::Push { slot: 0, ty, val } => {
            let t = SMALL_TYPES.iter().position(|x| x == ty)? as u64;
            let v = if *val == small_val(0) {
                0
            } else if *val == small_val(1) {
                1
            } else {
                return None;
            };
            Some(t * 2 + v)
        }
        DnOp::Remove { slot: 0, ty } => Some(6 + SMALL_TYPES.iter().position(|x| x == ty)? as u64),
        _ => None,
    }
}

impl Engine for DnSim {
    type Trace = DnTrace;
    const NAME: &'static str = "dn-sim";

    fn generate(run_seed: u64, index: u64, _tier: Tier, mode: &str) -> DnTrace {
        let mut r = Rng::new(run_seed);
        let hash_seed = r.next_u64();
        if mode == "small" {
            // histories over the 9-operation alphabet, length 1..=6, one encode at the end.
            // The first four operations are taken from the run index (a stride walk over
            // the 9^4 prefixes) so that prefix coverage completes quickly; the rest is seeded.
            let len = r.range(1, 6) as usize;
            let mut ops = Vec::new();
            let mut pre = (index.wrapping_mul(2_654_435_761)) % 6561;
            for k in 0..len {
                let code = if k < 4 {
                    let c = pre % 9;
                    pre /= 9;
                    c
                } else {
                    r.below(9)
                };
                ops.push(small_op(code));
            }
            let how = match r.below(4) {
                0 => EncodeHow::SelfSigned,
                1 => EncodeHow::Csr,
                2 => EncodeHow::Crl,
                _ => EncodeHow::NameConstraint,
            };
            ops.push(DnOp::Encode { slot: 0, how });
            return DnTrace { hash_seed, slots: 1, small: true, ops };
        }
        if mode == "long" {
            // one name object with a very long edit history (more first-insertions than any
            // 16-bit counter holds), a few attributes staying alive throughout
            let keep: Vec<DnTypeR> = (0..r.range(1, 3)).map(|_| gen_dn_type(&mut r)).collect();
            let mut ops: Vec<DnOp> = keep.iter().map(|t| DnOp::Push { slot: 0, ty: t.clone(), val: gen_dn_value(&mut r, 6) }).collect();
            let mut left: u32 = *r.pick(&[70_000u32, 100_000, 140_000]);
            while left > 0 {
                let n = (r.range(1, 40_000) as u32).min(left);
                ops.push(DnOp::Churn { slot: 0, ty: gen_dn_type(&mut r), times: n });
                left -= n;
                if r.chance(1, 2) {
                    ops.push(DnOp::Push { slot: 0, ty: gen_dn_type(&mut r), val: gen_dn_value(&mut r, 6) });
                }
            }
            ops.push(DnOp::Push { slot: 0, ty: DnTypeR::Custom(vec![2, 5, 4, 99]), val: DnValueR::Utf8("last".into()) });
            ops.push(DnOp::Encode { slot: 0, how: EncodeHow::SelfSigned });
            return DnTrace { hash_seed, slots: 1, small: false, ops };
        }
        // wide alphabet: a per-run pool of types (so re-push / remove-then-push actually happen)
        let slots = r.range(1, 3) as usize;
        let pool_n = r.range(2, 7) as usize;
        let pool: Vec<DnTypeR> = (0..pool_n).map(|_| gen_dn_type(&mut r)).collect();
        let n = r.range(1, 40) as usize;
        let mut ops = Vec::new();
        if r.chance(1, 4) {
            ops.push(DnOp::FromDefaultParams { slot: r.usize(slots) });
        }
        for _ in 0..n {
            let slot = r.usize(slots);
            let ty = if r.chance(9, 10) { r.pick(&pool).clone() } else { gen_dn_type(&mut r) };
            ops.push(match r.below(20) {
                0..=8 => DnOp::Push { slot, ty, val: gen_dn_value(&mut r, 12) },
                9..=13 => DnOp::Remove { slot, ty },
                14 => DnOp::Get { slot, ty },
                15 => DnOp::Iter { slot },
                16 => {
                    if r.bool() {
                        DnOp::CloneTo { from: slot, to: r.usize(slots) }
                    } else {
                        DnOp::CloneFrom { from: slot, to: r.usize(slots) }
                    }
                }
                17 => DnOp::Eq { a: slot, b: r.usize(slots) },
                18 => match r.below(8) {
                    0 => DnOp::New { slot },
                    1 => DnOp::FromDefaultParams { slot },
                    2 | 3 => DnOp::NearTwin { from: slot, to: r.usize(slots), variant: r.below(4) as u8 },
                    4 => {
                        // a foreign subject: a few standard types (not country: OpenSSL insists on
                        // two letters there), one of them possibly repeated
                        let oids: [&[u64]; 5] = [&[2, 5, 4, 10], &[2, 5, 4, 11], &[2, 5, 4, 3], &[2, 5, 4, 7], &[0, 9, 2342, 19200300, 100, 1, 25]];
                        let mut attrs: Vec<(Vec<u64>, String)> =
                            (0..r.range(1, 4)).map(|k| (r.pick(&oids).to_vec(), format!("v{k}"))).collect();
                        if r.chance(2, 3) {
                            let d = attrs[r.usize(attrs.len())].0.clone();
                            let at = r.usize(attrs.len() + 1);
                            attrs.insert(at, (d, "again".into()));
                        }
                        DnOp::Import { slot, attrs }
                    }
                    _ => DnOp::Rotate { slot },
                },
                _ => DnOp::Encode {
                    slot,
                    how: match r.below(5) {
                        0 => EncodeHow::SelfSigned,
                        1 => EncodeHow::SignedBy { issuer: r.usize(slots) },
                        2 => EncodeHow::Csr,
                        3 => EncodeHow::Crl,
                        _ => EncodeHow::NameConstraint,
                    },
                },
            });
        }
        ops.push(DnOp::Encode { slot: r.usize(slots), how: EncodeHow::SelfSigned });
        DnTrace { hash_seed, slots, small: false, ops }
    }

    fn execute(t: &DnTrace) -> Outcome {
        let mut o = Outcome::default();
        #[cfg(rcgen_verif)]
        rcgen::verif_hooks::set_hash_seed(t.hash_seed);
        let mut real: Vec<rcgen::DistinguishedName> = (0..t.slots).map(|_| rcgen::DistinguishedName::new()).collect();
        let mut model: Vec<Vec<(DnTypeR, DnValueR)>> = vec![Vec::new(); t.slots];
        // every type the history mentions, for the lookup check
        let mut universe: Vec<DnTypeR> = Vec::new();
        for op in &t.ops {
            if let DnOp::Push { ty, .. } | DnOp::Remove { ty, .. } | DnOp::Get { ty, .. } | DnOp::Churn { ty, .. } = op {
                if !universe.contains(ty) {
                    universe.push(ty.clone());
                }
            }
        }
        let mut small_prefix: u64 = 0;
        let mut small_len = 0u32;
        let mut saw_remove_then_push = false;
        let mut removed: Vec<(usize, DnTypeR)> = Vec::new();

        for (step, op) in t.ops.iter().enumerate() {
            let res = guarded(|| apply(op, &mut real, &mut model, &mut o));
            match res {
                Err(p) => {
                    o.violate("dn-panic", format!("step {step} {:?}: panicked: {p}", op));
                    break;
                }
                Ok(Err(d)) => {
                    o.violate(&d.0, format!("step {step} {:?}: {}", op, d.1));
                    break;
                }
                Ok(Ok(())) => {}
            }
            match op {
                DnOp::Remove { slot, ty } => removed.push((*slot, ty.clone())),
                DnOp::Push { slot, ty, .. } => {
                    if removed.contains(&(*slot, ty.clone())) {
                        saw_remove_then_push = true;
                    }
                }
                _ => {}
            }
            // invariants after every operation, on every slot
            let chk = guarded(|| check_all(&real, &model, &universe));
            match chk {
                Err(p) => {
                    o.violate("dn-panic", format!("after step {step} {:?}: check panicked: {p}", op));
                    break;
                }
                Ok(Err(d)) => {
                    o.violate(&d.0, format!("after step {step} {:?}: {}", op, d.1));
                    break;
                }
                Ok(Ok(())) => {}
            }
            o.count("steps", 1);
            if t.small {
                if let Some(c) = small_code(op) {
                    if small_len < 4 {
                        small_prefix = small_prefix * 9 + c;
                        small_len += 1;
                        // id of this prefix among all histories of length <= 4
                        let base: u64 = match small_len {
                            1 => 0,
                            2 => 9,
                            3 => 9 + 81,
                            _ => 9 + 81 + 729,
                        };
                        o.covered("dn_small_hist_le4", base + small_prefix);
                    }
                }
            }
            o.ev(format!("{step} {} -> {}", op_tag(op), state_digest(&model)));
        }
        if saw_remove_then_push {
            o.count("runs_with_remove_then_push", 1);
        }
        o.nontrivial = saw_remove_then_push;
        o
    }

    fn shrink(t: &DnTrace) -> Vec<DnTrace> {
        let mut v = Vec::new();
        // drop chunks, then single ops
        let n = t.ops.len();
        let mut chunk = n / 2;
        while chunk >= 1 {
            let mut i = 0;
            while i + chunk <= n {
                let mut c = t.clone();
                c.ops.drain(i..i + chunk);
                if !c.ops.is_empty() {
                    v.push(c);
                }
                i += chunk;
            }
            if chunk == 1 {
                break;
            }
            chunk /= 2;
        }
        // simplify values and operations
        for i in 0..n {
            match &t.ops[i] {
                DnOp::Push { slot, ty, val } => {
                    let simple = DnValueR::Utf8("x".into());
                    if *val != simple {
                        let mut c = t.clone();
                        c.ops[i] = DnOp::Push { slot: *slot, ty: ty.clone(), val: simple };
                        v.push(c);
                    }
                    if let DnTypeR::Custom(_) = ty {
                        for std in [DnTypeR::Cn, DnTypeR::Org] {
                            let mut c = t.clone();
                            let old = ty.clone();
                            for op in c.ops.iter_mut() {
                                match op {
                                    DnOp::Push { ty, .. } | DnOp::Remove { ty, .. } | DnOp::Get { ty, .. } if *ty == old => {
                                        *ty = std.clone()
                                    }
                                    _ => {}
                                }
                            }
                            v.push(c);
                        }
                    }
                }
                DnOp::Churn { slot, ty, times } if *times > 1 => {
                    for nt in [*times / 2, *times - 1] {
                        let mut c = t.clone();
                        c.ops[i] = DnOp::Churn { slot: *slot, ty: ty.clone(), times: nt };
                        v.push(c);
                    }
                }
                DnOp::Encode { slot, how } if *how != EncodeHow::SelfSigned => {
                    let mut c = t.clone();
                    c.ops[i] = DnOp::Encode { slot: *slot, how: EncodeHow::SelfSigned };
                    v.push(c);
                }
                _ => {}
            }
        }
        if t.slots > 1 {
            // fold everything onto slot 0
            let mut c = t.clone();
            c.slots = 1;
            for op in c.ops.iter_mut() {
                match op {
                    DnOp::Push { slot, .. }
                    | DnOp::Remove { slot, .. }
                    | DnOp::Get { slot, .. }
                    | DnOp::Iter { slot }
                    | DnOp::Rotate { slot }
                    | DnOp::Churn { slot, .. }
                    | DnOp::FromDefaultParams { slot }
                    | DnOp::New { slot } => *slot = 0,
                    DnOp::NearTwin { from, to, .. } | DnOp::CloneFrom { from, to } => {
                        *from = 0;
                        *to = 0;
                    }
                    DnOp::Import { slot, .. } => *slot = 0,
                    DnOp::Encode { slot, how } => {
                        *slot = 0;
                        if let EncodeHow::SignedBy { issuer } = how {
                            *issuer = 0;
                        }
                    }
                    DnOp::CloneTo { from, to } => {
                        *from = 0;
                        *to = 0;
                    }
                    DnOp::Eq { a, b } => {
                        *a = 0;
                        *b = 0;
                    }
                }
            }
            v.push(c);
        }
        if t.hash_seed != 1 {
            let mut c = t.clone();
            c.hash_seed = 1;
            v.push(c);
        }
        v
    }
}

fn op_tag(op: &DnOp) -> String {
    match op {
        DnOp::Push { slot, ty, val } => format!("push[{slot}] {:?}={:?}", ty, val),
        DnOp::Remove { slot, ty } => format!("remove[{slot}] {:?}", ty),
        DnOp::Get { slot, ty } => format!("get[{slot}] {:?}", ty),
        DnOp::Iter { slot } => format!("iter[{slot}]"),
        DnOp::CloneTo { from, to } => format!("clone {from}->{to}"),
        DnOp::Eq { a, b } => format!("eq {a} {b}"),
        DnOp::New { slot } => format!("new[{slot}]"),
        DnOp::Rotate { slot } => format!("rotate[{slot}]"),
        DnOp::Churn { slot, ty, times } => format!("churn[{slot}] {:?} x{times}", ty),
        DnOp::NearTwin { from, to, variant } => format!("near-twin {from}->{to} v{variant}"),
        DnOp::CloneFrom { from, to } => format!("clone_from {from}->{to}"),
        DnOp::FromDefaultParams { slot } => format!("from-default-params[{slot}]"),
        DnOp::Import { slot, attrs } => format!("import[{slot}] {:?}", attrs),
        DnOp::Encode { slot, how } => format!("encode[{slot}] {:?}", how),
    }
}

fn state_digest(model: &[Vec<(DnTypeR, DnValueR)>]) -> String {
    simcore::sha256::short(format!("{:?}", model).as_bytes())
}

type Fail = (String, String);

/// Every spelling of the comparison has to agree with the enumerations: `!=`, the operators on
/// references, `PartialEq::ne` called by name, and equality seen through a containing value.
#[allow(clippy::partialeq_ne_impl, clippy::op_ref)]
fn check_ne(x: &rcgen::DistinguishedName, y: &rcgen::DistinguishedName, equal: bool, a: usize, b: usize) -> Result<(), Fail> {
    let spellings: [(&str, bool); 5] = [
        ("a != b", *x != *y),
        ("&a != &b", &x != &y),
        ("PartialEq::ne(a, b)", PartialEq::ne(x, y)),
        ("!(Some(a) == Some(b))", !(Some(x) == Some(y))),
        ("[a] != [b]", [x] != [y]),
    ];
    for (what, ne) in spellings {
        if ne == equal {
            return fail("dn-equality", format!("slots {a},{b}: {what} is {ne}, enumerations equal: {equal}"));
        }
    }
    Ok(())
}

fn fail<T>(class: &str, d: String) -> Result<T, Fail> {
    Err((class.to_string(), d))
}

fn model_push(m: &mut Vec<(DnTypeR, DnValueR)>, ty: &DnTypeR, val: &DnValueR) {
    if let Some(e) = m.iter_mut().find(|(t, _)| t == ty) {
        e.1 = val.clone();
    } else {
        m.push((ty.clone(), val.clone()));
    }
}

fn apply(
    op: &DnOp,
    real: &mut Vec<rcgen::DistinguishedName>,
    model: &mut Vec<Vec<(DnTypeR, DnValueR)>>,
    o: &mut Outcome,
) -> Result<(), Fail> {
    match op {
        DnOp::Push { slot, ty, val } => {
            real[*slot].push(ty.build(), val.build());
            model_push(&mut model[*slot], ty, val);
        }
        DnOp::Remove { slot, ty } => {
            let got = real[*slot].remove(ty.build());
            let before = model[*slot].len();
            model[*slot].retain(|(t, _)| t != ty);
            let want = model[*slot].len() != before;
            if got != want {
                return fail("dn-remove-result", format!("remove returned {got}, model says {want}"));
            }
        }
        DnOp::Get { slot, ty } => {
            let got = real[*slot].get(&ty.build()).map(DnValueR::from_rcgen);
            let want = model[*slot].iter().find(|(t, _)| t == ty).map(|(_, v)| v.clone());
            if got != want {
                return fail("dn-lookup", format!("get returned {:?}, model says {:?}", got, want));
            }
        }
        DnOp::Iter { slot } => {
            check_iter(&real[*slot], &model[*slot])?;
        }
        DnOp::CloneTo { from, to } => {
            let c = real[*from].clone();
            real[*to] = c;
            model[*to] = model[*from].clone();
        }
        DnOp::Eq { a, b } => {
            let got = real[*a] == real[*b];
            let want = model[*a] == model[*b];
            if got != want {
                return fail("dn-equality", format!("== returned {got}, enumerations equal: {want}"));
            }
            check_ne(&real[*a], &real[*b], want, *a, *b)?;
        }
        DnOp::New { slot } => {
            real[*slot] = rcgen::DistinguishedName::new();
            model[*slot].clear();
        }
        DnOp::Rotate { slot } => {
            if !model[*slot].is_empty() {
                let (ty, val) = model[*slot].remove(0);
                if !real[*slot].remove(ty.build()) {
                    return fail("dn-remove-result", "remove of a present attribute returned false".into());
                }
                real[*slot].push(ty.build(), val.build());
                model[*slot].push((ty, val));
            }
        }
        DnOp::Churn { slot, ty, times } => {
            let val = DnValueR::Utf8("churn".into());
            let already = model[*slot].iter().any(|(t, _)| t == ty);
            for k in 0..*times {
                real[*slot].push(ty.build(), val.build());
                model_push(&mut model[*slot], ty, &val);
                check_iter(&real[*slot], &model[*slot]).map_err(|(c, d)| (c, format!("churn round {k} after push: {d}")))?;
                if already {
                    continue; // the type is one of the long-lived ones: only re-pushes
                }
                if !real[*slot].remove(ty.build()) {
                    return fail("dn-remove-result", format!("churn round {k}: remove of a present attribute returned false"));
                }
                model[*slot].retain(|(t, _)| t != ty);
                check_iter(&real[*slot], &model[*slot]).map_err(|(c, d)| (c, format!("churn round {k} after remove: {d}")))?;
            }
            o.count("churn_rounds", *times as u64);
        }
        DnOp::NearTwin { from, to, variant } => {
            // pick the first attribute whose value can be varied this way
            let src = model[*from].clone();
            let mut twin = None;
            for (idx, (ty, val)) in src.iter().enumerate() {
                let text = match val {
                    DnValueR::Bmp(s) | DnValueR::Ia5(s) | DnValueR::Printable(s) | DnValueR::Teletex(s) | DnValueR::Universal(s) | DnValueR::Utf8(s) => s.clone(),
                };
                let rebuild = |s: String| match val {
                    DnValueR::Bmp(_) => DnValueR::Bmp(s),
                    DnValueR::Ia5(_) => DnValueR::Ia5(s),
                    DnValueR::Printable(_) => DnValueR::Printable(s),
                    DnValueR::Teletex(_) => DnValueR::Teletex(s),
                    DnValueR::Universal(_) => DnValueR::Universal(s),
                    DnValueR::Utf8(_) => DnValueR::Utf8(s),
                };
                let cand: Option<(DnTypeR, DnValueR)> = match variant {
                    0 => text.char_indices().find(|(_, c)| c.is_ascii_alphabetic()).map(|(i, c)| {
                        let mut t2 = text.clone();
                        let flipped = if c.is_ascii_uppercase() { c.to_ascii_lowercase() } else { c.to_ascii_uppercase() };
                        t2.replace_range(i..i + 1, &flipped.to_string());
                        (ty.clone(), rebuild(t2))
                    }),
                    1 => {
                        // printable-safe text can live in several kinds
                        let safe = text.bytes().all(|b| b.is_ascii_alphanumeric() || b == b' ');
                        if safe {
                            Some((ty.clone(), if matches!(val, DnValueR::Utf8(_)) { DnValueR::Printable(text.clone()) } else { DnValueR::Utf8(text.clone()) }))
                        } else {
                            None
                        }
                    }
                    2 => Some((ty.clone(), rebuild(format!("{text} ")))),
                    _ => match ty {
                        DnTypeR::Custom(_) => None,
                        std => Some((DnTypeR::Custom(std.oid()), val.clone())),
                    },
                };
                if let Some(c) = cand {
                    twin = Some((idx, c));
                    break;
                }
            }
            let Some((idx, (nty, nval))) = twin else { return Ok(()) };
            // build the twin by the same pushes, with the one difference
            let mut dn = rcgen::DistinguishedName::new();
            let mut m: Vec<(DnTypeR, DnValueR)> = Vec::new();
            for (k, (ty, val)) in src.iter().enumerate() {
                let (ty, val) = if k == idx { (&nty, &nval) } else { (ty, val) };
                if m.iter().any(|(t, _)| t == ty) {
                    return Ok(()); // the custom twin of the type is already present: no clean twin
                }
                dn.push(ty.build(), val.build());
                m.push((ty.clone(), val.clone()));
            }
            real[*to] = dn;
            model[*to] = m;
            o.count("near_twins", 1);
        }
        DnOp::FromDefaultParams { slot } => {
            real[*slot] = rcgen::CertificateParams::default().distinguished_name;
            // what the documentation of the default parameters says the name is
            model[*slot] = vec![(DnTypeR::Cn, DnValueR::Utf8("rcgen self signed cert".into()))];
        }
        DnOp::CloneFrom { from, to } => {
            let src = real[*from].clone();
            real[*to].clone_from(&src);
            model[*to] = model[*from].clone();
        }
        #[cfg(not(feature = "x509-parser"))]
        DnOp::Import { .. } => {}
        #[cfg(feature = "x509-parser")]
        DnOp::Import { slot, attrs } => {
            let cert_der = foreign_cert(attrs).map_err(|e| ("dn-import-setup".to_string(), e))?;
            // what is on the wire, read independently; the reference is "push in wire order"
            let tbs = tbs_children(&cert_der)?;
            let wire = der::read_name(tbs[5]).map_err(|e| ("dn-import-setup".to_string(), e.0))?;
            let mut m: Vec<(DnTypeR, DnValueR)> = Vec::new();
            for a in &wire {
                let ty = crate::recipe::STD_TYPES.iter().find(|t| t.oid() == a.oid).cloned().unwrap_or(DnTypeR::Custom(a.oid.clone()));
                let text = String::from_utf8_lossy(&a.value).to_string();
                let val = match a.value_tag {
                    0x0c => DnValueR::Utf8(text),
                    0x13 => DnValueR::Printable(text),
                    0x16 => DnValueR::Ia5(text),
                    0x14 => DnValueR::Teletex(text),
                    _ => return fail("dn-import-setup", format!("unexpected string tag {:#x} from OpenSSL", a.value_tag)),
                };
                model_push(&mut m, &ty, &val);
            }
            let params = rcgen::CertificateParams::from_ca_cert_der(&cert_der.clone().into())
                .map_err(|e| ("dn-import-error".to_string(), format!("{e:?}")))?;
            real[*slot] = params.distinguished_name;
            model[*slot] = m;
            o.count("imports", 1);
        }
        DnOp::Encode { slot, how } => {
            o.count("encodes", 1);
            encode_check(*slot, how, real, model)?;
        }
    }
    Ok(())
}

fn check_iter(real: &rcgen::DistinguishedName, model: &[(DnTypeR, DnValueR)]) -> Result<(), Fail> {
    let conv = |(t, v): (&rcgen::DnType, &rcgen::DnValue)| (DnTypeR::from_rcgen(t), DnValueR::from_rcgen(v));
    let got: Vec<(DnTypeR, DnValueR)> = real.iter().map(conv).collect();
    if got != model {
        return fail("dn-enumeration", format!("iter() yields {:?}, model holds {:?}", got, model));
    }
    // enumeration through the rest of the Iterator protocol (adaptors call nth / size_hint /
    // fold-like methods an implementation may override); every walk is bounded
    let n = model.len();
    if n <= 12 {
        let bound = n + 2;
        if real.iter().count() != n {
            return fail("dn-enumeration", format!("iter().count() is {}, {} attributes present", real.iter().count(), n));
        }
        if real.iter().last().map(conv) != model.last().cloned() {
            return fail("dn-enumeration", "iter().last() is not the last attribute".into());
        }
        for k in 0..=n {
            if real.iter().nth(k).map(conv) != model.get(k).cloned() {
                return fail("dn-enumeration", format!("iter().nth({k}) disagrees with the enumeration"));
            }
            let skipped: Vec<_> = real.iter().skip(k).take(bound).map(conv).collect();
            if skipped != model[k.min(n)..] {
                return fail("dn-enumeration", format!("iter().skip({k}) yields {:?}", skipped));
            }
            // nth on a partly consumed iterator
            let mut it = real.iter();
            let mut via: Vec<(DnTypeR, DnValueR)> = Vec::new();
            if let Some(x) = it.next() {
                via.push(conv(x));
                while via.len() < bound {
                    match it.nth(k) {
                        Some(x) => via.push(conv(x)),
                        None => break,
                    }
                }
                let want: Vec<_> = model.iter().take(1).chain(model.iter().skip(1).skip(k).step_by(k + 1)).cloned().collect();
                if via != want {
                    return fail("dn-enumeration", format!("next() then repeated nth({k}) yields {:?}, expected {:?}", via, want));
                }
            }
        }
        for step in 1..=3usize {
            let stepped: Vec<_> = real.iter().step_by(step).take(bound).map(conv).collect();
            let want: Vec<_> = model.iter().step_by(step).cloned().collect();
            if stepped != want {
                return fail("dn-enumeration", format!("iter().step_by({step}) yields {:?}, expected {:?}", stepped, want));
            }
        }
        let (lo, hi) = real.iter().size_hint();
        if lo > n || hi.map_or(false, |h| h < n) {
            return fail("dn-enumeration", format!("iter().size_hint() = ({lo}, {:?}) excludes the actual length {n}", hi));
        }
    }
    Ok(())
}

fn check_all(
    real: &[rcgen::DistinguishedName],
    model: &[Vec<(DnTypeR, DnValueR)>],
    universe: &[DnTypeR],
) -> Result<(), Fail> {
    for s in 0..real.len() {
        check_iter(&real[s], &model[s])?;
        for ty in universe {
            let got = real[s].get(&ty.build()).map(DnValueR::from_rcgen);
            let want = model[s].iter().find(|(t, _)| t == ty).map(|(_, v)| v.clone());
            if got != want {
                return fail("dn-lookup", format!("slot {s}: get({:?}) = {:?}, enumeration says {:?}", ty, got, want));
            }
        }
    }
    for a in 0..real.len() {
        for b in 0..real.len() {
            let got = real[a] == real[b];
            let want = model[a] == model[b];
            if got != want {
                return fail("dn-equality", format!("slots {a},{b}: == is {got}, enumerations equal: {want}"));
            }
            check_ne(&real[a], &real[b], want, a, b)?;
        }
    }
    Ok(())
}

/// A self-signed certificate made by OpenSSL with the given subject attributes, in order.
#[cfg(feature = "x509-parser")]
fn foreign_cert(attrs: &[(Vec<u64>, String)]) -> Result<Vec<u8>, String> {
    use openssl::asn1::Asn1Time;
    use openssl::bn::BigNum;
    use openssl::hash::MessageDigest;
    use openssl::x509::{X509Builder, X509NameBuilder};
    let e = |x: openssl::error::ErrorStack| x.to_string();
    let key = crate::keys::SimKey::from_spec(&crate::keys::KeySpec { alg: simcore::Alg::P256, material: "07".repeat(32) });
    let pkey = openssl::pkey::PKey::private_key_from_pkcs8(&key.pkcs8).map_err(e)?;
    let mut nb = X509NameBuilder::new().map_err(e)?;
    for (oid, v) in attrs {
        let text = oid.iter().map(|a| a.to_string()).collect::<Vec<_>>().join(".");
        nb.append_entry_by_text(&text, v).map_err(e)?;
    }
    let name = nb.build();
    let mut b = X509Builder::new().map_err(e)?;
    b.set_version(2).map_err(e)?;
    let serial = BigNum::from_u32(7).map_err(e)?.to_asn1_integer().map_err(e)?;
    b.set_serial_number(&serial).map_err(e)?;
    b.set_subject_name(&name).map_err(e)?;
    b.set_issuer_name(&name).map_err(e)?;
    b.set_pubkey(&pkey).map_err(e)?;
    b.set_not_before(Asn1Time::from_unix(1_600_000_000).map_err(e)?.as_ref()).map_err(e)?;
    b.set_not_after(Asn1Time::from_unix(1_900_000_000).map_err(e)?.as_ref()).map_err(e)?;
    b.sign(&pkey, MessageDigest::sha256()).map_err(e)?;
    b.build().to_der().map_err(e)
}

// --- encode: issue an artefact carrying the name and read the RDNSequence back -----------

struct FakeSigner;
static FAKE_PUB: [u8; 32] = [7u8; 32];

impl rcgen::RemoteKeyPair for FakeSigner {
    fn public_key(&self) -> &[u8] {
        &FAKE_PUB
    }
    fn sign(&self, _msg: &[u8]) -> Result<Vec<u8>, rcgen::Error> {
        Ok(vec![0u8; 64])
    }
    fn algorithm(&self) -> &'static rcgen::SignatureAlgorithm {
        &rcgen::PKCS_ED25519
    }
}

fn fake_key() -> rcgen::KeyPair {
    rcgen::KeyPair::from_remote(Box::new(FakeSigner)).unwrap()
}

fn base_params(dn: &rcgen::DistinguishedName) -> rcgen::CertificateParams {
    let mut p = rcgen::CertificateParams::default();
    p.distinguished_name = dn.clone();
    p.serial_number = Some(rcgen::SerialNumber::from_slice(&[1, 2, 3]));
    p.key_identifier_method = rcgen::KeyIdMethod::PreSpecified(vec![1; 20]);
    p
}

fn wire_of(model: &[(DnTypeR, DnValueR)]) -> Vec<der::WireAttr> {
    model
        .iter()
        .map(|(t, v)| {
            let (tag, content) = v.wire();
            der::WireAttr { oid: t.oid(), value_tag: tag, value: content }
        })
        .collect()
}

fn tbs_children(derb: &[u8]) -> Result<Vec<Tlv<'_>>, Fail> {
    let s = der::split_signed(derb).map_err(|e| ("dn-encode-shape".to_string(), e.0))?;
    der::children(s.tbs.content).map_err(|e| ("dn-encode-shape".to_string(), e.0))
}

fn expect_name(what: &str, name: Tlv<'_>, model: &[(DnTypeR, DnValueR)]) -> Result<(), Fail> {
    let got = der::read_name(name).map_err(|e| ("dn-encode-shape".to_string(), format!("{what}: {}", e.0)))?;
    let want = wire_of(model);
    if got != want {
        return fail("dn-encoded-order", format!("{what}: encoded RDNSequence {:?} but enumeration is {:?}", got, want));
    }
    Ok(())
}

fn encode_check(
    slot: usize,
    how: &EncodeHow,
    real: &[rcgen::DistinguishedName],
    model: &[Vec<(DnTypeR, DnValueR)>],
) -> Result<(), Fail> {
    let key = fake_key();
    let e = |x: rcgen::Error| ("dn-encode-error".to_string(), format!("{x:?}"));
    match how {
        EncodeHow::SelfSigned => {
            let cert = base_params(&real[slot]).self_signed(&key).map_err(e)?;
            let ch = tbs_children(cert.der())?;
            if ch.len() < 7 {
                return fail("dn-encode-shape", format!("TBSCertificate has {} children", ch.len()));
            }
            expect_name("issuer", ch[3], &model[slot])?;
            expect_name("subject", ch[5], &model[slot])?;
        }
        EncodeHow::SignedBy { issuer } => {
            let ca = base_params(&real[*issuer]).self_signed(&key).map_err(e)?;
            let cert = base_params(&real[slot]).signed_by(&key, &ca, &key).map_err(e)?;
            let ch = tbs_children(cert.der())?;
            if ch.len() < 7 {
                return fail("dn-encode-shape", format!("TBSCertificate has {} children", ch.len()));
            }
            expect_name("issuer", ch[3], &model[*issuer])?;
            expect_name("subject", ch[5], &model[slot])?;
        }
        EncodeHow::Csr => {
            let mut p = rcgen::CertificateParams::default();
            p.distinguished_name = real[slot].clone();
            let csr = p.serialize_request(&key).map_err(e)?;
            let ch = tbs_children(csr.der())?;
            if ch.len() < 3 {
                return fail("dn-encode-shape", format!("CertificationRequestInfo has {} children", ch.len()));
            }
            expect_name("csr subject", ch[1], &model[slot])?;
        }
        EncodeHow::Crl => {
            let ca = base_params(&real[slot]).self_signed(&key).map_err(e)?;
            let crl = rcgen::CertificateRevocationListParams {
                this_update: rcgen::date_time_ymd(2024, 1, 1),
                next_update: rcgen::date_time_ymd(2024, 2, 1),
                crl_number: rcgen::SerialNumber::from_slice(&[1]),
                issuing_distribution_point: None,
                revoked_certs: vec![],
                key_identifier_method: rcgen::KeyIdMethod::PreSpecified(vec![1; 20]),
            }
            .signed_by(&ca, &key)
            .map_err(e)?;
            let ch = tbs_children(crl.der())?;
            if ch.len() < 3 {
                return fail("dn-encode-shape", format!("TBSCertList has {} children", ch.len()));
            }
            expect_name("crl issuer", ch[2], &model[slot])?;
        }
        EncodeHow::NameConstraint => {
            let mut p = base_params(&rcgen::DistinguishedName::new());
            p.is_ca = rcgen::IsCa::Ca(rcgen::BasicConstraints::Unconstrained);
            p.name_constraints = Some(rcgen::NameConstraints {
                permitted_subtrees: vec![rcgen::GeneralSubtree::DirectoryName(real[slot].clone())],
                excluded_subtrees: vec![],
            });
            let cert = p.self_signed(&key).map_err(e)?;
            let ch = tbs_children(cert.der())?;
            let shape = |s: &str| ("dn-encode-shape".to_string(), s.to_string());
            let exts = ch.iter().find(|c| c.tag == 0xa3).ok_or_else(|| shape("no extensions"))?;
            let seq = der::read_single(exts.content).map_err(|e| shape(&e.0))?;
            let mut found = false;
            for ext in der::children(seq.content).map_err(|e| shape(&e.0))? {
                let parts = der::children(ext.content).map_err(|e| shape(&e.0))?;
                if parts.is_empty() || parts[0].tag != der::OID {
                    continue;
                }
                if der::oid_arcs(parts[0].content).map_err(|e| shape(&e.0))? != [2, 5, 29, 30] {
                    continue;
                }
                let octets = parts.last().unwrap();
                let nc = der::read_single(octets.content).map_err(|e| shape(&e.0))?;
                let trees = der::children(nc.content).map_err(|e| shape(&e.0))?;
                let permitted = trees.iter().find(|t| t.tag == 0xa0).ok_or_else(|| shape("no permitted subtrees"))?;
                let subtrees = der::children(permitted.content).map_err(|e| shape(&e.0))?;
                let first = subtrees.first().ok_or_else(|| shape("empty permitted subtrees"))?;
                let base = der::children(first.content).map_err(|e| shape(&e.0))?;
                let dirname = base.first().ok_or_else(|| shape("empty GeneralSubtree"))?;
                if dirname.tag != 0xa4 {
                    return Err(shape("base is not a directoryName"));
                }
                // Name is a CHOICE, so [4] should be explicit; accept either form here —
                // only the order of the attributes is this property's business.
                let inner = der::children(dirname.content).map_err(|e| shape(&e.0))?;
                let name_tlv_owned;
                let name = if inner.len() == 1 && inner[0].tag == der::SEQ {
                    inner[0]
                } else {
                    name_tlv_owned = crate::recipe::tlv(der::SEQ, dirname.content);
                    der::read_single(&name_tlv_owned).map_err(|e| shape(&e.0))?
                };
                expect_name("name-constraint directoryName", name, &model[slot])?;
                found = true;
            }
            if !found {
                return Err(shape("name constraints extension not found"));
            }
        }
    }
    Ok(())
}
