//! simnode — the only crate that links rcgen. One binary per feature configuration.
//!
//!   simnode <engine> run  --seed S --from A --to B [--stride W --offset w] [--tier quick|thorough] [--mode M]
//!   simnode <engine> exec --trace FILE [-v]
//!   simnode <engine> minimize --trace FILE --out FILE [--budget SECS]
//!   simnode info

#![allow(dead_code)]
#[cfg(any(feature = "clilib-ring", feature = "clilib-aws"))]
mod calib;
mod dn_sim;
use simcore::engine;
mod keys;
mod purity;
mod recipe;
mod replica;
mod sign_sim;
mod signer;
mod sysseam;
mod world;

use engine::{Engine, Tier, WorkerArgs};

fn arg(args: &[String], name: &str) -> Option<String> {
    args.iter().position(|a| a == name).and_then(|i| args.get(i + 1).cloned())
}

/// Runs in the forked child before each run: restart the deterministic getrandom stream so
/// that a run does not depend on what the worker executed before it.
fn child_init(run_seed: u64) {
    sysseam::reseed(run_seed ^ 0x5eed_5eed_5eed_5eed);
    // std seeds its per-thread hash-map keys with one getrandom call on first use; spend that
    // call here, before the run, so that injected RNG faults land on rcgen's own draws
    let warm: std::collections::HashMap<u8, u8> = std::collections::HashMap::new();
    std::hint::black_box(&warm);
}

fn dispatch<E: Engine>(cmd: &str, args: &[String]) -> i32 {
    match cmd {
        "run" => {
            let a = WorkerArgs {
                verif_seed: arg(args, "--seed").and_then(|s| s.parse().ok()).unwrap_or(20261003),
                from: arg(args, "--from").and_then(|s| s.parse().ok()).unwrap_or(0),
                to: arg(args, "--to").and_then(|s| s.parse().ok()).unwrap_or(100),
                stride: arg(args, "--stride").and_then(|s| s.parse().ok()).unwrap_or(1),
                offset: arg(args, "--offset").and_then(|s| s.parse().ok()).unwrap_or(0),
                tier: if arg(args, "--tier").as_deref() == Some("thorough") { Tier::Thorough } else { Tier::Quick },
                mode: arg(args, "--mode").unwrap_or_else(|| "default".into()),
                max_samples: arg(args, "--samples").and_then(|s| s.parse().ok()).unwrap_or(2),
                stop_on_violation: !args.iter().any(|a| a == "--keep-going"),
                isolate: !args.iter().any(|a| a == "--no-isolate"),
                child_init: Some(child_init),
            };
            engine::worker::<E>(&a);
            0
        }
        "gen" => {
            let seed: u64 = arg(args, "--seed").and_then(|s| s.parse().ok()).unwrap_or(20261003);
            let i: u64 = arg(args, "--index").and_then(|s| s.parse().ok()).unwrap_or(0);
            let mode = arg(args, "--mode").unwrap_or_else(|| "default".into());
            let tier = if arg(args, "--tier").as_deref() == Some("thorough") { Tier::Thorough } else { Tier::Quick };
            let rs = simcore::prng::run_seed(seed, &format!("{}/{}", E::NAME, mode), i);
            println!("{}", serde_json::to_string(&serde_json::json!({"trace": E::generate(rs, i, tier, &mode)})).unwrap());
            0
        }
        "exec" => engine::exec_file::<E>(&arg(args, "--trace").expect("--trace"), args.iter().any(|a| a == "-v"), Some(child_init)),
        "minimize" => engine::minimize_file::<E>(
            &arg(args, "--trace").expect("--trace"),
            &arg(args, "--out").expect("--out"),
            arg(args, "--budget").and_then(|s| s.parse().ok()).unwrap_or(30),
            true,
            Some(child_init),
        ),
        _ => {
            eprintln!("unknown command {cmd}");
            2
        }
    }
}

fn main() {
    let args: Vec<String> = std::env::args().collect();
    if args.len() < 2 {
        eprintln!("usage: simnode <engine> <run|exec|minimize> ...");
        std::process::exit(2);
    }
    engine::install_quiet_panic_hook();
    let code = match args[1].as_str() {
        "info" => {
            println!(
                "{}",
                serde_json::json!({
                    "crypto": cfg!(feature = "crypto"), "ring": cfg!(feature = "ring"), "aws_lc_rs": cfg!(feature = "aws_lc_rs"),
                    "pem": cfg!(feature = "pem"), "x509_parser": cfg!(feature = "x509-parser"), "zeroize": cfg!(feature = "zeroize"),
                    "hook_rcgen_verif": cfg!(rcgen_verif), "system_seam": sysseam::present(),
                })
            );
            0
        }
        "dn-sim" => dispatch::<dn_sim::DnSim>(&args[2], &args[3..]),
        "sign-sim" => dispatch::<sign_sim::SignSim>(&args[2], &args[3..]),
        "replica-sim" => dispatch::<replica::ReplicaSim>(&args[2], &args[3..]),
        #[cfg(feature = "crypto")]
        "xchg-produce" => replica::xchg_produce(
            arg(&args, "--seed").and_then(|s| s.parse().ok()).unwrap_or(20261003),
            arg(&args, "--rounds").and_then(|s| s.parse().ok()).unwrap_or(2),
        ),
        #[cfg(feature = "crypto")]
        "xchg-consume" => replica::xchg_consume(&arg(&args, "--in").expect("--in")),
        "purity-hist" => dispatch::<purity::PurityHist>(&args[2], &args[3..]),
        #[cfg(any(feature = "clilib-ring", feature = "clilib-aws"))]
        "purity-lib" => dispatch::<calib::PurityLib>(&args[2], &args[3..]),
        #[cfg(feature = "shuttle")]
        "purity-shuttle" => dispatch::<purity::PurityShuttle>(&args[2], &args[3..]),
        other => {
            eprintln!("unknown engine {other}");
            2
        }
    };
    std::process::exit(code);
}
