//! The simulated deployment shared by the signing and purity engines: key slots (local or
//! remote custody), issuer slots, and one executor for issuance operations that records
//! everything an oracle may want to look at.

use std::collections::BTreeMap;
use std::sync::Arc;

use serde::{Deserialize, Serialize};
use simcore::{Alg, Rng};

use simcore::engine::guarded;
use crate::keys::{KeySpec, Loader, SimKey};
use crate::recipe::{AttrR, CertRecipe, CrlRecipe};
use crate::signer::{remote_key_pair, Bus, SeamHook, SignCall, SignerFault};

#[derive(Clone, Debug, PartialEq, Eq, Serialize, Deserialize)]
pub enum Custody {
    Local(Loader),
    Remote,
    /// loaded locally (through the nearest loader the build offers) where the build has a
    /// crypto back end, held behind the remote signer where it has none
    Native(Loader),
}

/// The nearest loader this build offers for a loader named in a build-independent trace.
pub fn nearest_loader(l: Loader) -> Loader {
    let mut l = l;
    if !cfg!(feature = "aws_lc_rs") {
        l = match l {
            Loader::LegacyDerAlgo => Loader::DerAlgo,
            Loader::LegacyDerAuto => Loader::PrivateKeyDerAuto,
            Loader::LegacySliceAuto => Loader::SliceAuto,
            Loader::LegacyPemAlgo => Loader::PemAlgo,
            Loader::LegacyPemAuto => Loader::PemAuto,
            x => x,
        };
    }
    if !cfg!(feature = "pem") {
        l = match l {
            Loader::PemAuto => Loader::SliceAuto,
            Loader::Pkcs8PemAlgo => Loader::Pkcs8DerAlgo,
            Loader::PemAlgo => Loader::DerAlgo,
            Loader::LegacyPemAlgo => Loader::LegacyDerAlgo,
            Loader::LegacyPemAuto => Loader::LegacyDerAuto,
            x => x,
        };
    }
    l
}

#[derive(Clone, Debug, PartialEq, Eq, Serialize, Deserialize)]
pub struct KeySlotSpec {
    pub spec: KeySpec,
    pub custody: Custody,
}

#[derive(Clone, Debug, PartialEq, Eq, Serialize, Deserialize)]
pub enum SubjectVia {
    /// subject given as the KeyPair itself
    KeyPair,
    /// subject given as a parsed SubjectPublicKeyInfo (needs x509-parser)
    Spki,
}

#[derive(Clone, Debug, PartialEq, Eq, Serialize, Deserialize)]
pub enum Op {
    SelfSign { key: usize, recipe: CertRecipe, store: bool },
    Issue { issuer: usize, subject: usize, via: SubjectVia, recipe: CertRecipe, store: bool },
    Csr { key: usize, recipe: CertRecipe, attrs: Vec<AttrR> },
    /// serialize_request -> from_der -> signed_by (needs x509-parser)
    IssueFromCsr { issuer: usize, key: usize, recipe: CertRecipe },
    Crl { issuer: usize, recipe: CrlRecipe },
    /// the issuer is first *imported* from its own DER (`from_ca_cert_der`), turned back into a
    /// `Certificate` by self-signing with the issuer key, and the leaf is issued from that
    /// (needs x509-parser)
    IssueViaImport { issuer: usize, subject: usize, recipe: CertRecipe },
    /// the convenience entry point: `generate_simple_self_signed(names)` — rcgen generates the
    /// key itself (crypto builds only)
    Simple { names: Vec<String> },
}

impl Op {
    pub fn kind(&self) -> &'static str {
        match self {
            Op::SelfSign { .. } => "selfsign",
            Op::Issue { .. } => "issue",
            Op::Csr { .. } => "csr",
            Op::IssueFromCsr { .. } => "issue-from-csr",
            Op::Crl { .. } => "crl",
            Op::IssueViaImport { .. } => "issue-via-import",
            Op::Simple { .. } => "simple-self-signed",
        }
    }
}

pub struct KeyHandle {
    pub sim: Arc<SimKey>,
    pub kp: rcgen::KeyPair,
    pub custody: Custody,
}

impl KeyHandle {
    /// Algorithms this key may legitimately sign with, given how it entered rcgen.
    pub fn allowed_algs(&self) -> Vec<Alg> {
        let auto = matches!(self.custody, Custody::Local(l) | Custody::Native(l) if l.is_auto());
        if auto && self.sim.alg.is_rsa() {
            vec![Alg::RsaSha256, Alg::RsaSha384, Alg::RsaSha512]
        } else {
            vec![self.sim.alg]
        }
    }
    pub fn is_remote(&self) -> bool {
        self.custody == Custody::Remote || (matches!(self.custody, Custody::Native(_)) && !cfg!(feature = "crypto"))
    }
}

pub struct IssuerSlot {
    pub cert: rcgen::Certificate,
    pub key: usize,
    pub recipe: CertRecipe,
}

pub struct World {
    pub keys: Vec<KeyHandle>,
    pub issuers: Vec<IssuerSlot>,
    pub bus: Bus,
}

#[derive(Clone, Debug)]
pub enum Ret {
    Ok(Vec<u8>),
    Err(String),
    Panic(String),
    /// the operation referred to a slot that does not exist (after shrinking) or to a
    /// feature this build lacks
    Skipped(&'static str),
}

/// One signed artefact produced during an operation (IssueFromCsr produces two).
#[derive(Clone, Debug)]
pub struct Artefact {
    pub kind: &'static str, // "cert" | "csr" | "crl"
    pub der: Vec<u8>,
    /// key slot whose private key must have signed it
    pub signer: usize,
    /// for CSRs: the requester key slot (its SPKI must be inside)
    pub requester: Option<usize>,
    /// signer calls observed while this artefact was produced
    pub calls: Vec<SignCall>,
    /// for certificates: subject key slot
    pub subject: Option<usize>,
    /// the same artefact as the API's other accessors hand it out (PEM decoded, `From`
    /// conversion into the pki-types DER wrapper): must be the bytes of `der`
    pub alt: Vec<(&'static str, Vec<u8>)>,
    /// set when the artefact was signed by a key rcgen generated itself (no key slot):
    /// (algorithm, SubjectPublicKeyInfo as the returned KeyPair reports it)
    pub own_key: Option<(Alg, Vec<u8>)>,
}

fn pem_body(_label: &str, text: &str) -> Vec<u8> {
    simcore::pem_decode(text).map(|(_, d)| d).unwrap_or_default()
}

pub fn cert_forms(cert: &rcgen::Certificate) -> Vec<(&'static str, Vec<u8>)> {
    #[allow(unused_mut)]
    let mut v: Vec<(&'static str, Vec<u8>)> = vec![("CertificateDer::from(cert)", pki_types::CertificateDer::from(cert.clone()).to_vec())];
    #[cfg(feature = "pem")]
    v.push(("pem()", pem_body("CERTIFICATE", &cert.pem())));
    v
}

pub fn csr_forms(csr: &rcgen::CertificateSigningRequest) -> Vec<(&'static str, Vec<u8>)> {
    #[allow(unused_mut)]
    let mut v: Vec<(&'static str, Vec<u8>)> = Vec::new();
    #[cfg(feature = "pem")]
    if let Ok(p) = csr.pem() {
        v.push(("pem()", pem_body("CERTIFICATE REQUEST", &p)));
    }
    v
}

pub fn crl_forms(crl: &rcgen::CertificateRevocationList) -> Vec<(&'static str, Vec<u8>)> {
    #[allow(unused_mut)]
    let mut v: Vec<(&'static str, Vec<u8>)> = Vec::new();
    #[cfg(feature = "pem")]
    if let Ok(p) = crl.pem() {
        v.push(("pem()", pem_body("X509 CRL", &p)));
    }
    v
}

pub struct OpResult {
    pub ret: Ret,
    pub artefacts: Vec<Artefact>,
    /// all signer calls of the operation, including failed stages
    pub calls: Vec<SignCall>,
    /// Some(false) when the returned object reports parameters different from the input
    pub params_preserved: Option<bool>,
    pub params_detail: String,
}

pub fn err_name(e: &rcgen::Error) -> String {
    let s = format!("{:?}", e);
    s.split(|c| c == '(' || c == ' ').next().unwrap_or("").to_string()
}

impl World {
    pub fn build(slots: &[KeySlotSpec], plan: BTreeMap<usize, SignerFault>, hook: Option<SeamHook>) -> Result<World, String> {
        let bus = Bus::new(plan);
        let mut keys = Vec::new();
        for (i, s) in slots.iter().enumerate() {
            let sim = Arc::new(SimKey::from_spec(&s.spec));
            let effective = match &s.custody {
                Custody::Native(l) if cfg!(feature = "crypto") => Custody::Local(nearest_loader(*l)),
                Custody::Native(_) => Custody::Remote,
                c => c.clone(),
            };
            let kp = match &effective {
                Custody::Native(_) => unreachable!(),
                Custody::Remote => remote_key_pair(i, sim.clone(), bus.clone(), hook.clone()),
                #[cfg(feature = "crypto")]
                Custody::Local(l) => match guarded(|| crate::keys::load_local(&sim, *l)) {
                    Ok(Ok(k)) => k,
                    Ok(Err(e)) => return Err(format!("key slot {i} ({:?} via {:?}) failed to load: {:?}", s.spec.alg, l, e)),
                    Err(p) => return Err(format!("key slot {i} ({:?} via {:?}) panicked while loading: {p}", s.spec.alg, l)),
                },
                #[cfg(not(feature = "crypto"))]
                Custody::Local(_) => return Err("local custody on a crypto-less build".into()),
            };
            keys.push(KeyHandle { sim, kp, custody: s.custody.clone() });
        }
        Ok(World { keys, issuers: Vec::new(), bus })
    }

    /// Executes an operation and, when it asks for it, stores the new certificate as an issuer slot.
    pub fn exec(&mut self, op: &Op) -> OpResult {
        let (res, slot) = self.exec_ro(op);
        if let Some(s) = slot {
            self.issuers.push(s);
        }
        res
    }

    /// Executes an operation against a shared, immutable world (what concurrent callers do).
    pub fn exec_ro(&self, op: &Op) -> (OpResult, Option<IssuerSlot>) {
        let mut new_issuer: Option<IssuerSlot> = None;
        let res = self.exec_inner(op, &mut new_issuer, None);
        (res, new_issuer)
    }

    /// A second `KeyPair` object for the key in this slot (re-loaded / re-wrapped), or None.
    pub fn second_key_object(&self, slot: usize) -> Option<rcgen::KeyPair> {
        let k = self.keys.get(slot)?;
        if k.is_remote() {
            return Some(remote_key_pair(slot, k.sim.clone(), self.bus.clone(), None));
        }
        #[cfg(feature = "crypto")]
        {
            let l = match &k.custody {
                Custody::Local(l) => *l,
                Custody::Native(l) => nearest_loader(*l),
                Custody::Remote => return None,
            };
            return crate::keys::load_local(&k.sim, l).ok();
        }
        #[allow(unreachable_code)]
        None
    }

    /// Another KeyPair object for the same RSA key, configured with a *different signature hash*:
    /// the public key is the same, so wherever the key is only the subject of a certificate
    /// (it signs nothing there) the result may not change.
    pub fn second_key_object_other_hash(&self, slot: usize) -> Option<rcgen::KeyPair> {
        let k = self.keys.get(slot)?;
        let other = match k.sim.alg {
            Alg::RsaSha256 => Alg::RsaSha384,
            Alg::RsaSha384 => Alg::RsaSha512,
            Alg::RsaSha512 => Alg::RsaSha256,
            _ => return None,
        };
        let sim2 = k.sim.with_alg(other);
        if k.is_remote() {
            return Some(remote_key_pair(slot, Arc::new(sim2), self.bus.clone(), None));
        }
        #[cfg(feature = "crypto")]
        {
            return crate::keys::load_local(&sim2, Loader::Pkcs8DerAlgo).ok();
        }
        #[allow(unreachable_code)]
        None
    }

    /// `Issue` with the subject given as another KeyPair object for the same key.
    pub fn exec_issue_with_subject(&self, op: &Op, subject_kp: &rcgen::KeyPair) -> Option<OpResult> {
        let Op::Issue { issuer, subject, recipe, .. } = op else { return None };
        let iss = self.issuers.get(*issuer)?;
        let ik = &self.keys[iss.key];
        let call0 = self.bus.n_calls();
        let params = recipe.build();
        let expect = params.clone();
        let mut res = OpResult { ret: Ret::Skipped("?"), artefacts: vec![], calls: vec![], params_preserved: None, params_detail: String::new() };
        match guarded(|| params.signed_by(subject_kp, &iss.cert, &ik.kp)) {
            Ok(Ok(cert)) => {
                let der = cert.der().to_vec();
                res.params_preserved = Some(*cert.params() == expect);
                res.artefacts.push(Artefact {
                    kind: "cert",
                    der: der.clone(),
                    signer: iss.key,
                    requester: None,
                    calls: self.bus.calls_since(call0),
                    subject: Some(*subject),
                    alt: cert_forms(&cert),
                    own_key: None,
                });
                res.ret = Ret::Ok(der);
            }
            Ok(Err(e)) => res.ret = Ret::Err(err_name(&e)),
            Err(p) => res.ret = Ret::Panic(p),
        }
        res.calls = self.bus.calls_since(call0);
        Some(res)
    }

    /// Like `exec_ro`, but with certificate parameters the caller built some other way than
    /// `recipe.build()` (same value, different object history). Only for SelfSign/Issue/Csr.
    pub fn exec_with_params(&self, op: &Op, params: rcgen::CertificateParams) -> OpResult {
        let mut new_issuer: Option<IssuerSlot> = None;
        self.exec_inner(op, &mut new_issuer, Some(params))
    }

    fn exec_inner(&self, op: &Op, new_issuer: &mut Option<IssuerSlot>, mut given: Option<rcgen::CertificateParams>) -> OpResult {
        let call0 = self.bus.n_calls();
        let mut res = OpResult { ret: Ret::Skipped("?"), artefacts: vec![], calls: vec![], params_preserved: None, params_detail: String::new() };
        match op {
            Op::SelfSign { key, recipe, store } => {
                let Some(k) = self.keys.get(*key) else {
                    res.ret = Ret::Skipped("no such key");
                    return res;
                };
                let params = given.take().unwrap_or_else(|| recipe.build());
                let expect = params.clone();
                match guarded(|| params.self_signed(&k.kp)) {
                    Ok(Ok(cert)) => {
                        let der = cert.der().to_vec();
                        res.params_preserved = Some(*cert.params() == expect);
                        if res.params_preserved == Some(false) {
                            res.params_detail = format!("returned {:?} for input {:?}", cert.params(), expect);
                        }
                        res.artefacts.push(Artefact {
                            kind: "cert",
                            der: der.clone(),
                            signer: *key,
                            requester: None,
                            calls: self.bus.calls_since(call0),
                            subject: Some(*key),
                            alt: cert_forms(&cert),
                            own_key: None,
                        });
                        res.ret = Ret::Ok(der);
                        if *store {
                            *new_issuer = Some(IssuerSlot { cert, key: *key, recipe: recipe.clone() });
                        }
                    }
                    Ok(Err(e)) => res.ret = Ret::Err(err_name(&e)),
                    Err(p) => res.ret = Ret::Panic(p),
                }
            }
            Op::Issue { issuer, subject, via, recipe, store } => {
                let (Some(iss), Some(sk)) = (self.issuers.get(*issuer), self.keys.get(*subject)) else {
                    res.ret = Ret::Skipped("no such issuer or subject");
                    return res;
                };
                let ik = &self.keys[iss.key];
                let params = given.take().unwrap_or_else(|| recipe.build());
                let expect = params.clone();
                let r = match via {
                    SubjectVia::KeyPair => guarded(|| params.signed_by(&sk.kp, &iss.cert, &ik.kp)),
                    #[cfg(feature = "x509-parser")]
                    SubjectVia::Spki => guarded(|| {
                        // the entry point (DER or PEM) alternates with a bit of the recipe
                        #[cfg(feature = "pem")]
                        let spki = if recipe.not_after & 1 == 1 {
                            rcgen::SubjectPublicKeyInfo::from_pem(&simcore::pem_encode("PUBLIC KEY", &sk.sim.spki))?
                        } else {
                            rcgen::SubjectPublicKeyInfo::from_der(&sk.sim.spki)?
                        };
                        #[cfg(not(feature = "pem"))]
                        let spki = rcgen::SubjectPublicKeyInfo::from_der(&sk.sim.spki)?;
                        params.signed_by(&spki, &iss.cert, &ik.kp)
                    }),
                    #[cfg(not(feature = "x509-parser"))]
                    SubjectVia::Spki => {
                        res.ret = Ret::Skipped("no x509-parser");
                        return res;
                    }
                };
                let signer_slot = iss.key;
                match r {
                    Ok(Ok(cert)) => {
                        let der = cert.der().to_vec();
                        res.params_preserved = Some(*cert.params() == expect);
                        if res.params_preserved == Some(false) {
                            res.params_detail = format!("returned {:?} for input {:?}", cert.params(), expect);
                        }
                        res.artefacts.push(Artefact {
                            kind: "cert",
                            der: der.clone(),
                            signer: signer_slot,
                            requester: None,
                            calls: self.bus.calls_since(call0),
                            subject: Some(*subject),
                            alt: cert_forms(&cert),
                            own_key: None,
                        });
                        res.ret = Ret::Ok(der);
                        if *store {
                            *new_issuer = Some(IssuerSlot { cert, key: *subject, recipe: recipe.clone() });
                        }
                    }
                    Ok(Err(e)) => res.ret = Ret::Err(err_name(&e)),
                    Err(p) => res.ret = Ret::Panic(p),
                }
            }
            Op::Csr { key, recipe, attrs } => {
                let Some(k) = self.keys.get(*key) else {
                    res.ret = Ret::Skipped("no such key");
                    return res;
                };
                let params = given.take().unwrap_or_else(|| recipe.build());
                let before = params.clone();
                let attrs_b: Vec<rcgen::Attribute> = attrs.iter().map(|a| a.build()).collect();
                let r = guarded(|| {
                    if attrs_b.is_empty() {
                        params.serialize_request(&k.kp)
                    } else {
                        params.serialize_request_with_attributes(&k.kp, attrs_b)
                    }
                });
                res.params_preserved = Some(params == before);
                if res.params_preserved == Some(false) {
                    res.params_detail = format!("params after the call {:?}, before {:?}", params, before);
                }
                match r {
                    Ok(Ok(csr)) => {
                        let der = csr.der().to_vec();
                        res.artefacts.push(Artefact {
                            kind: "csr",
                            der: der.clone(),
                            signer: *key,
                            requester: Some(*key),
                            calls: self.bus.calls_since(call0),
                            subject: None,
                            alt: csr_forms(&csr),
                            own_key: None,
                        });
                        res.ret = Ret::Ok(der);
                    }
                    Ok(Err(e)) => res.ret = Ret::Err(err_name(&e)),
                    Err(p) => res.ret = Ret::Panic(p),
                }
            }
            #[cfg(not(feature = "x509-parser"))]
            Op::IssueFromCsr { .. } => {
                res.ret = Ret::Skipped("no x509-parser");
                return res;
            }
            #[cfg(feature = "x509-parser")]
            Op::IssueFromCsr { issuer, key, recipe } => {
                let (Some(iss), Some(k)) = (self.issuers.get(*issuer), self.keys.get(*key)) else {
                    res.ret = Ret::Skipped("no such issuer or key");
                    return res;
                };
                let ik = &self.keys[iss.key];
                let params = recipe.build();
                let csr = match guarded(|| params.serialize_request(&k.kp)) {
                    Ok(Ok(c)) => c,
                    Ok(Err(e)) => {
                        res.ret = Ret::Err(format!("csr:{}", err_name(&e)));
                        res.calls = self.bus.calls_since(call0);
                        return res;
                    }
                    Err(p) => {
                        res.ret = Ret::Panic(p);
                        res.calls = self.bus.calls_since(call0);
                        return res;
                    }
                };
                let call1 = self.bus.n_calls();
                res.artefacts.push(Artefact {
                    kind: "csr",
                    der: csr.der().to_vec(),
                    signer: *key,
                    requester: Some(*key),
                    calls: self.bus.calls_since(call0),
                    subject: None,
                    alt: csr_forms(&csr),
                    own_key: None,
                });
                let r = guarded(|| {
                    #[cfg(feature = "pem")]
                    let parsed = if recipe.not_after & 1 == 1 {
                        rcgen::CertificateSigningRequestParams::from_pem(&csr.pem()?)?
                    } else {
                        rcgen::CertificateSigningRequestParams::from_der(csr.der())?
                    };
                    #[cfg(not(feature = "pem"))]
                    let parsed = rcgen::CertificateSigningRequestParams::from_der(csr.der())?;
                    parsed.signed_by(&iss.cert, &ik.kp)
                });
                match r {
                    Ok(Ok(cert)) => {
                        let der = cert.der().to_vec();
                        res.artefacts.push(Artefact {
                            kind: "cert",
                            der: der.clone(),
                            signer: iss.key,
                            requester: None,
                            calls: self.bus.calls_since(call1),
                            subject: Some(*key),
                            alt: cert_forms(&cert),
                            own_key: None,
                        });
                        res.ret = Ret::Ok(der);
                    }
                    Ok(Err(e)) => res.ret = Ret::Err(format!("import/sign:{}", err_name(&e))),
                    Err(p) => res.ret = Ret::Panic(p),
                }
            }
            #[cfg(not(feature = "crypto"))]
            Op::Simple { .. } => {
                res.ret = Ret::Skipped("no crypto back end");
                return res;
            }
            #[cfg(feature = "crypto")]
            Op::Simple { names } => match guarded(|| rcgen::generate_simple_self_signed(names.clone())) {
                Ok(Ok(ck)) => {
                    let der = ck.cert.der().to_vec();
                    let spki = ck.key_pair.public_key_der();
                    res.artefacts.push(Artefact {
                        kind: "cert",
                        der: der.clone(),
                        signer: 0,
                        requester: None,
                        calls: vec![],
                        subject: None,
                        alt: cert_forms(&ck.cert),
                        own_key: Some((Alg::P256, spki)),
                    });
                    res.ret = Ret::Ok(der);
                }
                Ok(Err(e)) => res.ret = Ret::Err(err_name(&e)),
                Err(p) => res.ret = Ret::Panic(p),
            },
            #[cfg(not(feature = "x509-parser"))]
            Op::IssueViaImport { .. } => {
                res.ret = Ret::Skipped("no x509-parser");
                return res;
            }
            #[cfg(feature = "x509-parser")]
            Op::IssueViaImport { issuer, subject, recipe } => {
                let (Some(iss), Some(sk)) = (self.issuers.get(*issuer), self.keys.get(*subject)) else {
                    res.ret = Ret::Skipped("no such issuer or subject");
                    return res;
                };
                let ik = &self.keys[iss.key];
                // names with an OID arc 2.40 and up do not survive x509-parser's decoder (DESIGN §8):
                // import robustness, not this family's subject
                let unimportable = iss.recipe.not_importable();
                if unimportable {
                    res.ret = Ret::Skipped("issuer name not importable");
                    return res;
                }
                let imported = match guarded(|| {
                    #[cfg(feature = "pem")]
                    let p = if recipe.not_after & 1 == 1 {
                        rcgen::CertificateParams::from_ca_cert_pem(&iss.cert.pem())?
                    } else {
                        rcgen::CertificateParams::from_ca_cert_der(iss.cert.der())?
                    };
                    #[cfg(not(feature = "pem"))]
                    let p = rcgen::CertificateParams::from_ca_cert_der(iss.cert.der())?;
                    p.self_signed(&ik.kp)
                }) {
                    Ok(Ok(c)) => c,
                    Ok(Err(e)) => {
                        res.ret = Ret::Err(format!("import:{}", err_name(&e)));
                        res.calls = self.bus.calls_since(call0);
                        return res;
                    }
                    Err(p) => {
                        res.ret = Ret::Panic(p);
                        res.calls = self.bus.calls_since(call0);
                        return res;
                    }
                };
                let call1 = self.bus.n_calls();
                res.artefacts.push(Artefact {
                    kind: "cert",
                    der: imported.der().to_vec(),
                    signer: iss.key,
                    requester: None,
                    calls: self.bus.calls_since(call0),
                    subject: Some(iss.key),
                    alt: cert_forms(&imported),
                    own_key: None,
                });
                let params = recipe.build();
                match guarded(|| params.signed_by(&sk.kp, &imported, &ik.kp)) {
                    Ok(Ok(cert)) => {
                        let der = cert.der().to_vec();
                        res.artefacts.push(Artefact {
                            kind: "cert",
                            der: der.clone(),
                            signer: iss.key,
                            requester: None,
                            calls: self.bus.calls_since(call1),
                            subject: Some(*subject),
                            alt: cert_forms(&cert),
                            own_key: None,
                        });
                        res.ret = Ret::Ok(der);
                    }
                    Ok(Err(e)) => res.ret = Ret::Err(err_name(&e)),
                    Err(p) => res.ret = Ret::Panic(p),
                }
            }
            Op::Crl { issuer, recipe } => {
                let Some(iss) = self.issuers.get(*issuer) else {
                    res.ret = Ret::Skipped("no such issuer");
                    return res;
                };
                let ik = &self.keys[iss.key];
                let params = recipe.build();
                match guarded(|| params.signed_by(&iss.cert, &ik.kp)) {
                    Ok(Ok(crl)) => {
                        let der = crl.der().to_vec();
                        let same = recipe.matches(crl.params());
                        res.params_preserved = Some(same);
                        if !same {
                            res.params_detail = format!("returned {:?} for recipe {:?}", crl.params(), recipe);
                        }
                        res.artefacts.push(Artefact {
                            kind: "crl",
                            der: der.clone(),
                            signer: iss.key,
                            requester: None,
                            calls: self.bus.calls_since(call0),
                            subject: None,
                            alt: crl_forms(&crl),
                            own_key: None,
                        });
                        res.ret = Ret::Ok(der);
                    }
                    Ok(Err(e)) => res.ret = Ret::Err(err_name(&e)),
                    Err(p) => res.ret = Ret::Panic(p),
                }
            }
        }
        res.calls = self.bus.calls_since(call0);
        res
    }
}

// ------------------------------------------------------------------ generation ----------

pub struct GenCfg {
    pub allow_remote: bool,
    pub allow_local: bool,
    pub max_keys: usize,
    pub max_ops: usize,
}

pub fn gen_slots(r: &mut Rng, cfg: &GenCfg) -> Vec<KeySlotSpec> {
    let n = r.range(2, cfg.max_keys as u64) as usize;
    let locals = crate::keys::local_algs();
    let remotes = crate::keys::remote_algs();
    (0..n)
        .map(|_| {
            let remote = if !cfg.allow_local || locals.is_empty() {
                true
            } else if !cfg.allow_remote {
                false
            } else {
                r.chance(1, 2)
            };
            if remote {
                let alg = *r.pick(&remotes);
                KeySlotSpec { spec: KeySpec::draw(r, alg), custody: Custody::Remote }
            } else {
                let alg = *r.pick(&locals);
                let l = *r.pick(&crate::keys::loaders_for(alg));
                KeySlotSpec { spec: KeySpec::draw(r, alg), custody: Custody::Local(l) }
            }
        })
        .collect()
}

/// Seeded issuance workload; keeps a count of issuer slots that will exist if everything
/// succeeds so that later operations can refer to them.
pub fn gen_ops(r: &mut Rng, nkeys: usize, n_ops: usize, crypto: bool) -> Vec<Op> {
    gen_ops_for(r, nkeys, n_ops, crypto, cfg!(feature = "x509-parser"))
}

/// Like `gen_ops`, with the capabilities given explicitly instead of taken from this
/// build's features (for traces that several differently built nodes must derive alike).
pub fn gen_ops_for(r: &mut Rng, nkeys: usize, n_ops: usize, crypto: bool, x509: bool) -> Vec<Op> {
    use crate::recipe::*;
    let sw = Swarm::draw(r, crypto);
    let mut ops = Vec::new();
    let mut issuers = 0usize;
    // always start with a root so that issuer-dependent operations have a target
    ops.push(Op::SelfSign { key: r.usize(nkeys), recipe: gen_ca_cert(r, &sw), store: true });
    issuers += 1;
    let mut last_ca_dn: Option<DnRecipe> = None;
    if let Some(Op::SelfSign { recipe, .. }) = ops.first() {
        last_ca_dn = Some(recipe.dn.clone());
    }
    while ops.len() < n_ops {
        let mut op = match r.below(10) {
            0 => Op::SelfSign { key: r.usize(nkeys), recipe: gen_cert(r, &sw), store: false },
            1 => {
                issuers += 1;
                Op::SelfSign { key: r.usize(nkeys), recipe: gen_ca_cert(r, &sw), store: true }
            }
            2 | 3 => Op::Issue {
                issuer: r.usize(issuers),
                subject: r.usize(nkeys),
                via: if x509 && r.chance(1, 3) { SubjectVia::Spki } else { SubjectVia::KeyPair },
                recipe: gen_cert(r, &sw),
                store: false,
            },
            4 => {
                let i = r.usize(issuers);
                issuers += 1;
                Op::Issue { issuer: i, subject: r.usize(nkeys), via: SubjectVia::KeyPair, recipe: gen_ca_cert(r, &sw), store: true }
            }
            5 | 6 => Op::Csr { key: r.usize(nkeys), recipe: gen_csr_cert(r, &sw), attrs: gen_attrs(r) },
            7 if x509 && crypto => {
                // what CSR import supports: SANs, key usages, standard EKUs
                let mut c = gen_csr_cert(r, &sw);
                c.serial = None;
                c.is_ca = IsCaR::No;
                c.name_constraints = None;
                c.crl_dps.clear();
                c.use_aki = false;
                c.custom_exts.clear();
                c.ekus.retain(|e| !matches!(e, EkuR::Other(_)));
                c.sans.retain(|s| !matches!(s, SanR::Other(..)));
                // x509-parser/asn1-rs decodes a first sub-identifier >= 120 (arc 2.40 and up) as "3.x",
                // which rcgen then cannot re-encode (panic in yasna). That is import robustness
                // (C06/C10/C17), not this family's subject: keep imported names inside 2.0..2.39.
                for (t, _) in c.dn.0.iter_mut() {
                    if let DnTypeR::Custom(o) = t {
                        if o[0] == 2 && o[1] >= 40 {
                            o[1] %= 40;
                        }
                        if o[0] == 0 && o[1] == 0 {
                            o[1] = 1;
                        }
                    }
                }
                Op::IssueFromCsr { issuer: r.usize(issuers), key: r.usize(nkeys), recipe: c }
            }
            8 if x509 => Op::IssueViaImport { issuer: r.usize(issuers), subject: r.usize(nkeys), recipe: gen_cert(r, &sw) },
            _ => Op::Crl { issuer: r.usize(issuers), recipe: gen_crl(r, &sw) },
        };
        // a rare coincidence no independent draw produces: a subject named exactly like a CA of the run
        if let (Some(dn), Op::Issue { recipe, .. } | Op::SelfSign { recipe, .. }) = (&last_ca_dn, &mut op) {
            if r.chance(1, 10) {
                recipe.dn = dn.clone();
            }
        }
        ops.push(op);
    }
    ops
}
