//! C01 — every issued artefact carries a valid signature over exactly its signed bytes;
//! if the signer fails, an error is returned and no artefact is produced.
//!
//! Seams: S1 (remote signer: fail points, exact bytes handed over), S2 (RNG system-call
//! failure while a local ECDSA/RSA key signs; only when the process runs under detsys.so).

use std::collections::BTreeMap;

use serde::{Deserialize, Serialize};
use simcore::der;
use simcore::{Alg, Rng};

use simcore::engine::{Engine, Outcome, Tier};
use crate::keys::openssl_verify;
use crate::signer::{SignerFault, ERR_VARIANTS};
use crate::sysseam;
use crate::world::{gen_ops, gen_slots, Artefact, Custody, GenCfg, KeySlotSpec, Op, OpResult, Ret, World};

#[derive(Clone, Debug, Serialize, Deserialize, PartialEq, Eq)]
pub struct RngFault {
    /// operation index during which the fault is armed
    pub op: usize,
    /// k-th getrandom call (0-based) since arming
    pub call: u32,
    /// 0 = EINTR once, 1 = short read, 2 = EIO, 3 = ENOSYS-like hard failure (EPERM)
    pub kind: u8,
}

#[derive(Clone, Debug, Serialize, Deserialize)]
pub struct SignTrace {
    pub hash_seed: u64,
    pub slots: Vec<KeySlotSpec>,
    pub ops: Vec<Op>,
    /// global signer call index -> fault
    pub plan: BTreeMap<usize, SignerFault>,
    /// fault enumeration: run fault-free, then once per signer call k with call k failing
    /// (and once per getrandom call observed, when the system seam is present)
    pub enumerate: bool,
    pub enum_variant_seed: u64,
    pub rng_fault: Option<RngFault>,
}

pub struct SignSim;

const OPAQUE_LENS: [u32; 13] = [0, 1, 63, 64, 70, 71, 72, 127, 128, 255, 256, 512, 1000];

impl Engine for SignSim {
    type Trace = SignTrace;
    const NAME: &'static str = "sign-sim";

    fn generate(run_seed: u64, _index: u64, tier: Tier, mode: &str) -> SignTrace {
        let mut r = Rng::new(run_seed);
        let hash_seed = r.next_u64();
        let crypto = cfg!(feature = "crypto");
        let cfg = GenCfg {
            allow_remote: mode != "rng",
            allow_local: crypto && mode != "enum-remote",
            max_keys: 4,
            max_ops: if tier == Tier::Thorough { 10 } else { 7 },
        };
        let mut slots = gen_slots(&mut r, &cfg);
        if mode == "faults" || mode == "enum" {
            // make sure a remote signer is in play
            if !slots.iter().any(|s| s.custody == Custody::Remote) {
                slots[0].custody = Custody::Remote;
            }
        }
        if mode == "plain" || mode == "faults" {
            // now and then the HSM holds an RSA key larger than anything a back end would load
            // (drawn from a stream of its own so that every other draw stays what it was)
            let mut r2 = Rng::new(run_seed ^ 0x9216_9216);
            for s in slots.iter_mut() {
                if s.custody == Custody::Remote && s.spec.alg.is_rsa() && r2.chance(1, 6) {
                    s.spec.material = simcore::sha256::hex(&[crate::keys::RSA_POOL_REMOTE_ONLY]);
                } else if s.custody == Custody::Remote && s.spec.alg.is_rsa() && r2.chance(1, 3) {
                    // ... or a legacy key smaller than anything a back end would load
                    let (first, n) = crate::keys::RSA_POOL_SMALL_REMOTE_ONLY;
                    s.spec.material = simcore::sha256::hex(&[first + r2.below(n as u64) as u8]);
                }
            }
        }
        let n_ops = r.range(3, cfg.max_ops as u64) as usize;
        let mut ops = gen_ops(&mut r, slots.len(), n_ops, crypto);
        // the convenience entry point with a key rcgen generates itself (not reproducible, so it
        // only appears here, where validity is judged, never where outputs are compared)
        if crypto && mode != "enum-remote" && r.chance(1, 5) {
            let names = (0..r.range(0, 3))
                .map(|_| if r.bool() { crate::recipe::gen_host(&mut r) } else { std::net::Ipv4Addr::from(r.next_u64() as u32).to_string() })
                .collect();
            let at = r.range(1, ops.len() as u64) as usize;
            ops.insert(at, Op::Simple { names });
        }
        let mut plan = BTreeMap::new();
        let mut rng_fault = None;
        match mode {
            "faults" => {
                for _ in 0..r.range(1, 2) {
                    let k = r.usize(n_ops + 1);
                    let f = if r.chance(2, 3) {
                        SignerFault::Err(r.below(ERR_VARIANTS as u64) as u8)
                    } else {
                        SignerFault::Opaque(*r.pick(&OPAQUE_LENS))
                    };
                    plan.insert(k, f);
                }
            }
            "rng" => {
                rng_fault = Some(RngFault { op: r.usize(n_ops), call: r.below(3) as u32, kind: r.below(4) as u8 });
            }
            _ => {}
        }
        SignTrace {
            hash_seed,
            slots,
            ops,
            plan,
            enumerate: mode == "enum" || mode == "enum-remote" || mode == "enum-rng",
            enum_variant_seed: r.next_u64(),
            rng_fault,
        }
    }

    fn execute(t: &SignTrace) -> Outcome {
        let mut o = Outcome::default();
        if t.hash_seed % 8 == 0 {
            oid_probe(&mut o);
            if o.violation.is_some() {
                return o;
            }
        }
        let base = scenario(t, &t.plan, t.rng_fault.as_ref(), &mut o, "base");
        if !t.enumerate || o.violation.is_some() {
            o.nontrivial = o.counters.get("signer_faults_fired_err").copied().unwrap_or(0)
                + o.counters.get("signer_faults_fired_opaque").copied().unwrap_or(0)
                + o.counters.get("rng_faults_fired").copied().unwrap_or(0)
                > 0
                || (o.counters.get("remote_exact_bytes_checked").copied().unwrap_or(0) >= 1
                    && o.counters.get("artefacts_checked").copied().unwrap_or(0) >= 3);
            return o;
        }
        // fault enumeration over every signer call of the fault-free execution
        let mut vr = Rng::new(t.enum_variant_seed);
        for k in 0..base.signer_calls {
            let mut plan = t.plan.clone();
            let f = if vr.chance(3, 4) {
                SignerFault::Err(vr.below(ERR_VARIANTS as u64) as u8)
            } else {
                SignerFault::Opaque(*vr.pick(&OPAQUE_LENS))
            };
            plan.insert(k, f);
            o.count("enum_signer_points", 1);
            scenario(t, &plan, None, &mut o, &format!("fail-signer-call-{k}"));
            if o.violation.is_some() {
                return o;
            }
        }
        // ... and over every getrandom call made during issuance operations
        if sysseam::present() {
            for (op, n) in base.rng_calls_per_op.iter().enumerate() {
                for call in 0..*n {
                    let kind = vr.below(4) as u8;
                    o.count("enum_rng_points", 1);
                    scenario(t, &t.plan, Some(&RngFault { op, call, kind }), &mut o, &format!("fail-getrandom-op{op}-call{call}-kind{kind}"));
                    if o.violation.is_some() {
                        return o;
                    }
                }
            }
        }
        o.nontrivial = base.signer_calls > 0 || base.rng_calls_per_op.iter().any(|n| *n > 0);
        o
    }

    fn shrink(t: &SignTrace) -> Vec<SignTrace> {
        let mut v = Vec::new();
        if t.enumerate {
            // pin the enumeration down to single fault points
            let mut vr = Rng::new(t.enum_variant_seed);
            for k in 0..(t.ops.len() * 2 + 2) {
                let f = if vr.chance(3, 4) {
                    SignerFault::Err(vr.below(ERR_VARIANTS as u64) as u8)
                } else {
                    SignerFault::Opaque(*vr.pick(&OPAQUE_LENS))
                };
                let mut c = t.clone();
                c.enumerate = false;
                c.plan.insert(k, f);
                v.push(c);
            }
            if sysseam::present() {
                for op in 0..t.ops.len() {
                    for call in 0..4 {
                        for kind in 0..4 {
                            let mut c = t.clone();
                            c.enumerate = false;
                            c.rng_fault = Some(RngFault { op, call, kind });
                            v.push(c);
                        }
                    }
                }
            }
            let mut c = t.clone();
            c.enumerate = false;
            v.push(c);
            return v;
        }
        let n = t.ops.len();
        // drop operations (fault indices are global call numbers, so also try shifting them down)
        for i in (0..n).rev() {
            if n > 1 {
                let mut c = t.clone();
                c.ops.remove(i);
                if let Some(f) = c.rng_fault.as_mut() {
                    if f.op > i {
                        f.op -= 1;
                    } else if f.op == i {
                        continue;
                    }
                }
                v.push(c.clone());
                let shifted: BTreeMap<usize, SignerFault> =
                    c.plan.iter().map(|(k, f)| (k.saturating_sub(1), f.clone())).collect();
                if shifted != c.plan {
                    c.plan = shifted;
                    v.push(c);
                }
            }
        }
        for k in t.plan.keys() {
            let mut c = t.clone();
            c.plan.remove(k);
            v.push(c);
        }
        for (k, f) in &t.plan {
            if *f != SignerFault::Err(0) {
                let mut c = t.clone();
                c.plan.insert(*k, SignerFault::Err(0));
                v.push(c);
            }
        }
        // simplify recipes
        for i in 0..n {
            match &t.ops[i] {
                Op::SelfSign { key, recipe, store } => {
                    for rc in recipe.shrink() {
                        let mut c = t.clone();
                        c.ops[i] = Op::SelfSign { key: *key, recipe: rc, store: *store };
                        v.push(c);
                    }
                }
                Op::Issue { issuer, subject, via, recipe, store } => {
                    for rc in recipe.shrink() {
                        let mut c = t.clone();
                        c.ops[i] = Op::Issue { issuer: *issuer, subject: *subject, via: via.clone(), recipe: rc, store: *store };
                        v.push(c);
                    }
                }
                Op::Csr { key, recipe, attrs } => {
                    for rc in recipe.shrink() {
                        let mut c = t.clone();
                        c.ops[i] = Op::Csr { key: *key, recipe: rc, attrs: attrs.clone() };
                        v.push(c);
                    }
                    if !attrs.is_empty() {
                        let mut c = t.clone();
                        c.ops[i] = Op::Csr { key: *key, recipe: recipe.clone(), attrs: vec![] };
                        v.push(c);
                    }
                }
                Op::IssueFromCsr { issuer, key, recipe } => {
                    for rc in recipe.shrink() {
                        let mut c = t.clone();
                        c.ops[i] = Op::IssueFromCsr { issuer: *issuer, key: *key, recipe: rc };
                        v.push(c);
                    }
                }
                Op::Crl { issuer, recipe } => {
                    for rc in recipe.shrink() {
                        let mut c = t.clone();
                        c.ops[i] = Op::Crl { issuer: *issuer, recipe: rc };
                        v.push(c);
                    }
                }
                Op::Simple { names } => {
                    if !names.is_empty() {
                        let mut c = t.clone();
                        c.ops[i] = Op::Simple { names: vec![] };
                        v.push(c);
                    }
                }
                Op::IssueViaImport { issuer, subject, recipe } => {
                    for rc in recipe.shrink() {
                        let mut c = t.clone();
                        c.ops[i] = Op::IssueViaImport { issuer: *issuer, subject: *subject, recipe: rc };
                        v.push(c);
                    }
                    let mut c = t.clone();
                    c.ops[i] = Op::Issue { issuer: *issuer, subject: *subject, via: crate::world::SubjectVia::KeyPair, recipe: recipe.clone(), store: false };
                    v.push(c);
                }
            }
        }
        // simplify keys: Ed25519 is the cheapest and has no randomness
        for (i, s) in t.slots.iter().enumerate() {
            if s.spec.alg != Alg::Ed25519 {
                let mut c = t.clone();
                c.slots[i].spec = crate::keys::KeySpec { alg: Alg::Ed25519, material: "11".repeat(32) };
                if let Custody::Local(_) = c.slots[i].custody {
                    c.slots[i].custody = Custody::Local(crate::keys::Loader::Pkcs8DerAlgo);
                }
                v.push(c);
            }
        }
        if t.hash_seed != 1 {
            let mut c = t.clone();
            c.hash_seed = 1;
            v.push(c);
        }
        v
    }
}

struct ScenarioStats {
    signer_calls: usize,
    rng_calls_per_op: Vec<u32>,
}

/// One execution of the trace's operations under one fault plan, every artefact judged.
fn scenario(t: &SignTrace, plan: &BTreeMap<usize, SignerFault>, rngf: Option<&RngFault>, o: &mut Outcome, label: &str) -> ScenarioStats {
    #[cfg(rcgen_verif)]
    rcgen::verif_hooks::set_hash_seed(t.hash_seed);
    let mut stats = ScenarioStats { signer_calls: 0, rng_calls_per_op: vec![] };
    let mut w = match World::build(&t.slots, plan.clone(), None) {
        Ok(w) => w,
        Err(e) => {
            // key provisioning is not this property's subject (C11/C16); record and stop
            o.count("world_setup_failed", 1);
            o.ev(format!("[{label}] setup failed: {e}"));
            return stats;
        }
    };
    o.count("scenarios", 1);
    // an RNG fault is armed from operation `op` on and stays armed until it fires: the
    // `call`-th getrandom call counted from there fails (never during key provisioning)
    let mut rng_remaining: Option<u32> = rngf.map(|f| f.call);
    for (i, op) in t.ops.iter().enumerate() {
        // key generation is not issuance: no RNG fault while rcgen provisions a key of its own
        let provisioning = matches!(op, Op::Simple { .. });
        let armed = match (rngf, rng_remaining) {
            (Some(f), Some(rem)) if i >= f.op && sysseam::present() && !provisioning => {
                sysseam::arm_getrandom(rem, f.kind);
                true
            }
            _ => {
                sysseam::count_getrandom();
                false
            }
        };
        let res = w.exec(op);
        let (rng_calls, rng_fired) = sysseam::disarm();
        stats.rng_calls_per_op.push(rng_calls);
        if armed {
            if rng_fired {
                rng_remaining = None;
                o.count("rng_faults_fired", 1);
                o.count(&format!("rng_fault_kind_{}", rngf.unwrap().kind), 1);
            } else {
                rng_remaining = rng_remaining.map(|r| r.saturating_sub(rng_calls));
            }
        }
        o.count("ops", 1);
        o.count(&format!("op_{}", op.kind()), 1);
        let tag = match &res.ret {
            // a key rcgen generated itself is not reproducible (aws-lc-rs randomness is not behind
            // the seam), so its certificate's digest stays out of the event log
            Ret::Ok(_) if matches!(op, Op::Simple { .. }) => "ok (generated key)".to_string(),
            Ret::Ok(d) => format!("ok tbs={}", tbs_digest(d)),
            Ret::Err(e) => format!("err:{e}"),
            Ret::Panic(p) => format!("panic:{}", p.chars().take(80).collect::<String>()),
            Ret::Skipped(s) => format!("skipped:{s}"),
        };
        o.ev(format!("[{label}] {i} {} {} calls={}", op.kind(), tag, res.calls.len()));
        match &res.ret {
            Ret::Ok(_) => o.count("ret_ok", 1),
            Ret::Err(_) => o.count("ret_err", 1),
            Ret::Panic(_) => o.count("ret_panic", 1),
            Ret::Skipped(_) => o.count("ret_skipped", 1),
        }
        if let Err((class, detail)) = judge(&w, op, &res, armed && rng_fired, o) {
            o.violate(&class, format!("[{label}] op {i} ({}): {detail}", op.kind()));
            break;
        }
        // what a caller does after a failed issuance: try the very same request again.
        // The retry is an ordinary operation and is judged like one (one signer call over
        // exactly its to-be-signed bytes, valid signature).
        if res.calls.iter().any(|c| c.ret.is_err()) || (armed && rng_fired && matches!(res.ret, Ret::Err(_))) {
            sysseam::count_getrandom();
            let again = w.exec(op);
            sysseam::disarm();
            o.count("retries_after_failure", 1);
            o.ev(format!("[{label}] {i} retry {} calls={}", op.kind(), again.calls.len()));
            if let Err((class, detail)) = judge(&w, op, &again, false, o) {
                o.violate(&class, format!("[{label}] retry of op {i} ({}) after a failed attempt: {detail}", op.kind()));
                break;
            }
        }
    }
    {
        let st = w.bus.0.lock().unwrap();
        stats.signer_calls = st.calls.len();
        o.count("signer_calls", st.calls.len() as u64);
        o.count("signer_faults_fired_err", st.faults_fired_err as u64);
        o.count("signer_faults_fired_opaque", st.faults_fired_opaque as u64);
    }
    stats
}

fn tbs_digest(der_bytes: &[u8]) -> String {
    match der::split_signed(der_bytes) {
        Ok(s) => simcore::sha256::short(s.tbs.raw),
        Err(_) => "unparsable".into(),
    }
}

type Fail = (String, String);
fn fail<T>(c: &str, d: String) -> Result<T, Fail> {
    Err((c.to_string(), d))
}

fn hx(b: &[u8]) -> String {
    let s = simcore::sha256::hex(b);
    if s.len() > 96 {
        format!("{}..({} bytes)", &s[..96], b.len())
    } else {
        s
    }
}

fn judge(w: &World, _op: &Op, res: &OpResult, rng_fault_fired: bool, o: &mut Outcome) -> Result<(), Fail> {
    let signer_failed = res.calls.iter().any(|c| c.ret.is_err());
    // clause 5: failure of the signer must surface as an error
    match &res.ret {
        Ret::Ok(_) if signer_failed => {
            return fail("c01-error-swallowed", "a signer call of this operation returned Err but the operation returned Ok".into());
        }
        Ret::Panic(p) if signer_failed => {
            return fail("c01-panic-on-signer-failure", format!("signer returned Err and the operation panicked: {p}"));
        }
        Ret::Panic(p) if rng_fault_fired && p.contains("rcgen/src/") => {
            return fail("c01-panic-on-rng-failure", format!("getrandom failed during signing and rcgen panicked: {p}"));
        }
        Ret::Panic(_) if rng_fault_fired => {
            // the failed call was consumed by somebody else (e.g. std seeding a hash map inside a
            // parser): not the signer failing, and not rcgen's panic
            o.count("panic_under_rng_fault_outside_rcgen", 1);
        }
        Ret::Panic(_) => {
            // a parameter-induced panic without any fault is C10's subject, not this property's
            o.count("panic_without_fault", 1);
        }
        Ret::Err(_) if signer_failed => o.count("signer_failure_surfaced_as_err", 1),
        Ret::Err(_) if !rng_fault_fired => o.count("err_without_fault", 1),
        _ => {}
    }
    if signer_failed && !res.artefacts.is_empty() {
        // an artefact may exist only from a stage that completed before the failing call
        for a in &res.artefacts {
            if a.calls.iter().any(|c| c.ret.is_err()) {
                return fail("c01-artefact-despite-failure", format!("a {} was produced by a stage whose signer call failed", a.kind));
            }
        }
    }
    for a in &res.artefacts {
        check_artefact(w, a, o)?;
    }
    Ok(())
}

pub fn check_artefact(w: &World, a: &Artefact, o: &mut Outcome) -> Result<(), Fail> {
    o.count("artefacts_checked", 1);
    o.count(&format!("artefact_{}", a.kind), 1);
    if let Some((alg, spki)) = &a.own_key {
        // signed by a key rcgen generated itself: shape, identifiers, the certificate carries
        // the returned key's SPKI, and the signature verifies under it
        let s = der::split_signed(&a.der).map_err(|e| ("c01-shape".to_string(), format!("{}: {}", a.kind, e.0)))?;
        for (how, bytes) in &a.alt {
            if bytes != &a.der {
                return fail("c01-forms-differ", format!("{}: {} differs from der()", a.kind, how));
            }
        }
        if s.alg.raw != alg.sig_alg_id() {
            return fail("c01-identifier", format!("generated-key certificate carries signatureAlgorithm {}", hx(s.alg.raw)));
        }
        let ch = der::children(s.tbs.content).map_err(|e| ("c01-shape".to_string(), e.0))?;
        if ch.get(2).map(|c| c.raw) != Some(s.alg.raw) {
            return fail("c01-inner-identifier", "generated-key certificate: inner AlgorithmIdentifier differs from outer".into());
        }
        if ch.get(6).map(|c| c.raw) != Some(spki.as_slice()) {
            return fail("c01-invalid-signature", "generated-key certificate does not carry the returned key's SubjectPublicKeyInfo".into());
        }
        return match openssl_verify(*alg, spki, s.tbs.raw, s.sig) {
            Ok(true) => {
                o.count("openssl_verified", 1);
                o.count("generated_key_certificates", 1);
                Ok(())
            }
            _ => fail("c01-invalid-signature", "OpenSSL rejects the certificate of generate_simple_self_signed under the returned key".into()),
        };
    }
    let key = &w.keys[a.signer];
    // clause 1: shape
    let s = der::split_signed(&a.der).map_err(|e| ("c01-shape".to_string(), format!("{}: {}", a.kind, e.0)))?;
    // what the other accessors hand out is the same artefact
    for (how, bytes) in &a.alt {
        if bytes != &a.der {
            return fail(
                "c01-forms-differ",
                format!("{}: {} yields {} bytes (sha {}), der() {} bytes (sha {})", a.kind, how, bytes.len(), simcore::sha256::short(bytes), a.der.len(), simcore::sha256::short(&a.der)),
            );
        }
        o.count("alternative_forms_compared", 1);
    }
    let n = s.tbs.raw.len();
    o.covered("tbs_len_form", if n < 128 + 2 { 0 } else if n < 256 + 3 { 1 } else if n < 65536 + 4 { 2 } else { 3 });
    // clause 2: identifiers
    let allowed = key.allowed_algs();
    let Some(alg) = allowed.iter().copied().find(|x| x.sig_alg_id() == s.alg.raw) else {
        return fail(
            "c01-identifier",
            format!(
                "{} signed by a {:?} key carries signatureAlgorithm {} (registered: {})",
                a.kind,
                key.sim.alg,
                hx(s.alg.raw),
                allowed.iter().map(|x| hx(x.sig_alg_id())).collect::<Vec<_>>().join(" | ")
            ),
        );
    };
    o.count(&format!("alg_{}_{}", alg.name(), if key.is_remote() { "remote" } else { "local" }), 1);
    let tbs_ch = der::children(s.tbs.content).map_err(|e| ("c01-shape".to_string(), format!("tbs: {}", e.0)))?;
    let inner = match a.kind {
        "cert" => tbs_ch.get(2),
        "crl" => tbs_ch.get(1),
        _ => None,
    };
    if a.kind != "csr" {
        let Some(inner) = inner else {
            return fail("c01-shape", format!("{}: to-be-signed part has no inner AlgorithmIdentifier", a.kind));
        };
        if inner.raw != s.alg.raw {
            return fail(
                "c01-inner-identifier",
                format!("{}: inner AlgorithmIdentifier {} differs from outer {}", a.kind, hx(inner.raw), hx(s.alg.raw)),
            );
        }
    }
    // clause 3: exactly the signed bytes, exactly once (observable for remote keys)
    let mut opaque = false;
    if key.is_remote() {
        let mine: Vec<_> = a.calls.iter().filter(|c| c.slot == a.signer).collect();
        if a.calls.len() != 1 || mine.len() != 1 {
            return fail(
                "c01-signer-calls",
                format!("{}: {} signer calls during the operation ({} to the signing key), want exactly 1", a.kind, a.calls.len(), mine.len()),
            );
        }
        let c = mine[0];
        if c.msg != s.tbs.raw {
            return fail(
                "c01-signed-bytes",
                format!(
                    "{}: signer was handed {} bytes (sha {}) but the embedded to-be-signed part is {} bytes (sha {})",
                    a.kind,
                    c.msg.len(),
                    simcore::sha256::short(&c.msg),
                    s.tbs.raw.len(),
                    simcore::sha256::short(s.tbs.raw)
                ),
            );
        }
        match &c.ret {
            Ok(bytes) => {
                if bytes.as_slice() != s.sig {
                    return fail(
                        "c01-embedded-signature",
                        format!("{}: signer returned {} but the BIT STRING holds {}", a.kind, hx(bytes), hx(s.sig)),
                    );
                }
            }
            Err(_) => return fail("c01-artefact-despite-failure", format!("{}: produced although its signer call failed", a.kind)),
        }
        opaque = c.opaque;
        o.count("remote_exact_bytes_checked", 1);
        if opaque {
            o.count("opaque_embeddings_checked", 1);
            o.covered("opaque_sig_len", s.sig.len() as u64);
        }
    } else if !a.calls.is_empty() && a.calls.iter().any(|c| c.slot == a.signer) {
        return fail("c01-signer-calls", "local key but a remote signer call was made for it".into());
    }
    // CSR: the request must carry the requester's own key
    if a.kind == "csr" {
        let req = &w.keys[a.requester.unwrap()];
        let Some(spki) = tbs_ch.get(2) else {
            return fail("c01-shape", "CertificationRequestInfo without SubjectPublicKeyInfo".into());
        };
        if spki.raw != req.sim.spki.as_slice() {
            return fail("c01-csr-spki", format!("CSR carries SPKI {} but the requester's key is {}", hx(spki.raw), hx(&req.sim.spki)));
        }
    }
    // clause 4: validity under an independent verifier
    if !opaque {
        match openssl_verify(alg, &key.sim.spki, s.tbs.raw, s.sig) {
            Ok(true) => o.count("openssl_verified", 1),
            Ok(false) => {
                return fail(
                    "c01-invalid-signature",
                    format!("{}: OpenSSL rejects the signature ({:?}, {} custody) over the embedded to-be-signed bytes", a.kind, alg, if key.is_remote() { "remote" } else { "local" }),
                )
            }
            Err(e) => return fail("c01-invalid-signature", format!("{}: {}", a.kind, e)),
        }
    }
    Ok(())
}


/// Signature algorithm OIDs next to the registered seven: other PKCS#1 leaves (MD2 .. SHA-1,
/// RSASSA-PSS, SHA-224, SHA-512/224, SHA-512/256), other ECDSA digests, key-type OIDs,
/// Ed448, X25519, the SHA-3 family, SM2.
const NEIGHBOUR_OIDS: [&[u64]; 24] = [
    &[1, 2, 840, 113549, 1, 1, 1],
    &[1, 2, 840, 113549, 1, 1, 2],
    &[1, 2, 840, 113549, 1, 1, 3],
    &[1, 2, 840, 113549, 1, 1, 4],
    &[1, 2, 840, 113549, 1, 1, 5],
    &[1, 2, 840, 113549, 1, 1, 10],
    &[1, 2, 840, 113549, 1, 1, 14],
    &[1, 2, 840, 113549, 1, 1, 15],
    &[1, 2, 840, 113549, 1, 1, 16],
    &[1, 2, 840, 10045, 2, 1],
    &[1, 2, 840, 10045, 4, 1],
    &[1, 2, 840, 10045, 4, 3, 1],
    &[1, 2, 840, 10045, 4, 3, 4],
    &[1, 3, 101, 110],
    &[1, 3, 101, 113],
    &[2, 16, 840, 1, 101, 3, 4, 3, 9],
    &[2, 16, 840, 1, 101, 3, 4, 3, 10],
    &[2, 16, 840, 1, 101, 3, 4, 3, 11],
    &[2, 16, 840, 1, 101, 3, 4, 3, 12],
    &[2, 16, 840, 1, 101, 3, 4, 3, 13],
    &[2, 16, 840, 1, 101, 3, 4, 3, 14],
    &[2, 16, 840, 1, 101, 3, 4, 3, 15],
    &[2, 16, 840, 1, 101, 3, 4, 3, 16],
    &[1, 2, 156, 10197, 1, 501],
];

/// Whatever algorithm the registry hands out for an OID is an algorithm a caller can sign with.
/// For every OID outside the harness's own table that `SignatureAlgorithm::from_oid` accepts,
/// every kind of key is offered to it; where a key loads, the self-signed certificate it
/// produces must be one OpenSSL accepts under that key. (On the tree as given the registry
/// offers nothing beyond the table, and this does no signing at all.)
fn oid_probe(o: &mut Outcome) {
    let known: Vec<&[u64]> = crate::keys::remote_algs().iter().map(|a| a.sig_oid_arcs()).collect();
    for oid in NEIGHBOUR_OIDS.iter() {
        if known.contains(oid) {
            continue;
        }
        o.count("oid_probe_lookups", 1);
        let alg = match rcgen::SignatureAlgorithm::from_oid(oid) {
            Ok(a) => a,
            Err(_) => continue,
        };
        o.count("oid_probe_accepted_outside_table", 1);
        let _ = alg;
        #[cfg(feature = "crypto")]
        for key_alg in [Alg::RsaSha256, Alg::P256, Alg::P384, Alg::P521, Alg::Ed25519] {
            let spec = crate::keys::KeySpec { alg: key_alg, material: simcore::sha256::hex(&[if key_alg.is_rsa() { 0u8 } else { 7u8 }; 32]) };
            let key = crate::keys::SimKey::from_spec(&spec);
            let pk8 = pki_types::PrivatePkcs8KeyDer::from(key.pkcs8.clone());
            let kp = match rcgen::KeyPair::from_pkcs8_der_and_sign_algo(&pk8, alg) {
                Ok(k) => k,
                Err(_) => continue,
            };
            o.count("oid_probe_keys_loaded", 1);
            let mut p = rcgen::CertificateParams::default();
            p.distinguished_name.push(rcgen::DnType::CommonName, "oid probe");
            let der = match std::panic::catch_unwind(std::panic::AssertUnwindSafe(|| p.self_signed(&kp))) {
                Ok(Ok(c)) => c.der().to_vec(),
                Ok(Err(_)) => continue,
                Err(_) => {
                    o.violate("c01-panic", format!("self-signing under the algorithm from_oid({oid:?}) returns panicked: {}", simcore::engine::last_panic()));
                    return;
                }
            };
            let ok = openssl::x509::X509::from_der(&der)
                .ok()
                .and_then(|x| x.public_key().ok().and_then(|pk| x.verify(&pk).ok()))
                .unwrap_or(false);
            if !ok {
                o.violate(
                    "c01-invalid-signature",
                    format!(
                        "from_oid({oid:?}) offers an algorithm; a {} key loads under it, and the self-signed certificate it yields is not one OpenSSL accepts under that key",
                        key_alg.name()
                    ),
                );
                return;
            }
        }
    }
}
