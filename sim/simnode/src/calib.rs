//! C15 on the workspace's second generation path: the `rustls_cert_gen` library (the builders
//! behind the CLI). One `Ca` object is the shared issuer; end-entity certificates are issued
//! from it one after the other. The generated subject keys come from the system-call seam:
//! the deterministic getrandom stream is restarted with a recorded value before every
//! build, so "the same request" really is the same parameters *and* the same subject key, and
//! its to-be-signed bytes must not depend on what the `Ca` object issued before.
//!
//! Reference for every request: the same request issued first thing from a pristine `Ca` that
//! was built from the same options and the same randomness (and must itself come out
//! byte-identical; where even the generated key differs the back end's generator is not
//! behind the seam and the run compares nothing). Afterwards the used `Ca` must still serialise as it did when it was new.

use serde::{Deserialize, Serialize};
use simcore::der;
use simcore::engine::{Engine, Outcome, Tier};
use simcore::sha256;
use simcore::Rng;

use crate::recipe::{gen_host, SanR};
use crate::sysseam;

#[derive(Clone, Debug, PartialEq, Eq, Serialize, Deserialize)]
pub struct LibRequest {
    pub cn: Option<String>,
    pub sans: Vec<SanR>,
    pub client: bool,
    pub server: bool,
    /// restarts the getrandom stream before this request's build: decides the subject key
    pub rand: u64,
}

#[derive(Clone, Debug, Serialize, Deserialize)]
pub struct LibTrace {
    pub country: Option<String>,
    pub org: Option<String>,
    pub ca_rand: u64,
    pub requests: Vec<LibRequest>,
    /// which request is issued at each step, all from the one shared `Ca`
    pub history: Vec<usize>,
}

pub struct PurityLib;

fn build_ca(t: &LibTrace) -> Result<rustls_cert_gen::Ca, String> {
    sysseam::reseed(t.ca_rand);
    let mut b = rustls_cert_gen::CertificateBuilder::new().certificate_authority();
    if let Some(c) = &t.country {
        b = b.country_name(c).map_err(|e| format!("country_name: {e}"))?;
    }
    if let Some(o) = &t.org {
        b = b.organization_name(o);
    }
    b.build().map_err(|e| format!("ca build: {e}"))
}

fn issue(ca: &rustls_cert_gen::Ca, q: &LibRequest) -> Result<(Vec<u8>, String), String> {
    sysseam::reseed(q.rand);
    let mut b = rustls_cert_gen::CertificateBuilder::new().end_entity();
    if let Some(cn) = &q.cn {
        b = b.common_name(cn);
    }
    b = b.subject_alternative_names(q.sans.iter().map(|s| s.build()).collect());
    if q.client {
        b.client_auth();
    }
    if q.server {
        b.server_auth();
    }
    let ee = b.build(ca).map_err(|e| format!("end-entity build: {e}"))?;
    let pem = ee.serialize_pem();
    let (_, d) = simcore::pem_decode(&pem.cert_pem).ok_or("end-entity PEM does not decode")?;
    Ok((d, pem.private_key_pem))
}

fn tbs(d: &[u8]) -> Result<Vec<u8>, String> {
    der::split_signed(d).map(|s| s.tbs.raw.to_vec()).map_err(|e| format!("certificate does not split: {}", e.0))
}

impl Engine for PurityLib {
    type Trace = LibTrace;
    const NAME: &'static str = "purity-lib";

    fn generate(run_seed: u64, _index: u64, _tier: Tier, _mode: &str) -> LibTrace {
        let mut r = Rng::new(run_seed);
        let n_req = r.range(1, 3) as usize;
        let requests: Vec<LibRequest> = (0..n_req)
            .map(|_| LibRequest {
                cn: if r.chance(2, 3) { Some(gen_host(&mut r)) } else { None },
                sans: (0..r.range(0, 3))
                    .map(|_| {
                        if r.bool() {
                            SanR::Dns(gen_host(&mut r))
                        } else {
                            let b = r.bytes(4);
                            SanR::Ip4([b[0], b[1], b[2], b[3]])
                        }
                    })
                    .collect(),
                client: r.bool(),
                server: r.bool(),
                rand: r.next_u64(),
            })
            .collect();
        let steps = r.range(2, 6) as usize;
        let history = (0..steps).map(|_| r.usize(n_req)).collect();
        LibTrace {
            country: if r.bool() { Some((*r.pick(&["BR", "DE", "US", "JP"])).to_string()) } else { None },
            org: if r.bool() { Some(format!("Org {}", r.below(100))) } else { None },
            ca_rand: r.next_u64(),
            requests,
            history,
        }
    }

    fn execute(t: &LibTrace) -> Outcome {
        let mut o = Outcome::default();
        if !sysseam::present() {
            o.ev("system-call seam not loaded: generated keys are not repeatable, nothing to compare".into());
            return o;
        }
        let r = std::panic::catch_unwind(std::panic::AssertUnwindSafe(|| run(t, &mut o)));
        match r {
            Ok(Ok(())) => {}
            Ok(Err(e)) => o.violate("c15-lib-error", e),
            Err(_) => o.violate("c15-lib-panic", simcore::engine::last_panic()),
        }
        o
    }

    fn shrink(t: &LibTrace) -> Vec<LibTrace> {
        let mut v = Vec::new();
        for i in 0..t.history.len() {
            if t.history.len() > 1 {
                let mut c = t.clone();
                c.history.remove(i);
                v.push(c);
            }
        }
        for (i, q) in t.requests.iter().enumerate() {
            if !q.sans.is_empty() || q.cn.is_some() || q.client || q.server {
                let mut c = t.clone();
                c.requests[i] = LibRequest { cn: None, sans: vec![], client: false, server: false, rand: q.rand };
                v.push(c);
            }
        }
        if t.country.is_some() || t.org.is_some() {
            let mut c = t.clone();
            c.country = None;
            c.org = None;
            v.push(c);
        }
        v
    }
}

fn run(t: &LibTrace, o: &mut Outcome) -> Result<(), String> {
    // references: each request as the first issuance of a pristine Ca
    let first = build_ca(t)?;
    let first_pem = first.serialize_pem();
    let mut reference: Vec<Option<Vec<u8>>> = vec![None; t.requests.len()];
    for &q in &t.history {
        if reference[q].is_some() {
            continue;
        }
        let pristine = build_ca(t)?;
        let p = pristine.serialize_pem();
        if p.private_key_pem != first_pem.private_key_pem {
            // the back end draws from a source the seam does not own (aws-lc mixes CPU entropy
            // into its generator): generated keys are not repeatable, nothing can be compared
            o.ev("generated keys are not repeatable under this back end: nothing to compare".into());
            o.count("rng_not_owned_by_seam", 1);
            return Ok(());
        }
        if p.cert_pem != first_pem.cert_pem {
            o.violate(
                "c15-history-dependent",
                "rustls_cert_gen: two Ca objects built from the same options and the same randomness differ".into(),
            );
            return Ok(());
        }
        let (d, _) = issue(&pristine, &t.requests[q])?;
        reference[q] = Some(tbs(&d)?);
        o.count("pristine_references", 1);
    }
    // the history, all from one shared Ca
    let shared = build_ca(t)?;
    let before = shared.serialize_pem();
    let before_der = shared.cert().der().to_vec();
    for (step, &q) in t.history.iter().enumerate() {
        let (d, _) = issue(&shared, &t.requests[q])?;
        let now = tbs(&d)?;
        o.ev(format!("step {step} request {q} tbs={}", &sha256::hex(&sha256::sha256(&now))[..16]));
        o.count("repeated_observations_compared", 1);
        if Some(&now) != reference[q].as_ref() {
            o.violate(
                "c15-history-dependent",
                format!(
                    "rustls_cert_gen: step {step}: request {q} issued from a Ca that issued {step} certificate(s) before has other \
                     to-be-signed bytes than the same request (same options, same subject key) as the first issuance of an identical Ca"
                ),
            );
            return Ok(());
        }
        let after = shared.serialize_pem();
        if after.cert_pem != before.cert_pem || after.private_key_pem != before.private_key_pem || shared.cert().der().as_ref() != &before_der[..] {
            o.violate("c15-shared-altered", format!("rustls_cert_gen: step {step}: the shared Ca no longer serialises as it did before the issuance"));
            return Ok(());
        }
    }
    o.nontrivial = t.history.len() >= 2;
    o.count("lib_histories", 1);
    Ok(())
}
