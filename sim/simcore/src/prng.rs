//! The only source of choices in a simulated run: splitmix64 for seed derivation,
//! xoshiro256** for the per-run stream. Nothing here reads a clock, an address or the OS.

pub fn splitmix64(x: u64) -> u64 {
    let mut z = x.wrapping_add(0x9e37_79b9_7f4a_7c15);
    z = (z ^ (z >> 30)).wrapping_mul(0xbf58_476d_1ce4_e5b9);
    z = (z ^ (z >> 27)).wrapping_mul(0x94d0_49bb_1331_11eb);
    z ^ (z >> 31)
}

/// Tag of an engine/property, mixed into run seeds so engines never share streams.
pub fn tag(s: &str) -> u64 {
    let mut h: u64 = 0xcbf2_9ce4_8422_2325;
    for b in s.bytes() {
        h = (h ^ b as u64).wrapping_mul(0x0000_0100_0000_01b3);
    }
    h
}

/// run_seed = splitmix64(VERIF_SEED ^ tag(engine) ^ splitmix64(i))
pub fn run_seed(verif_seed: u64, engine: &str, i: u64) -> u64 {
    splitmix64(verif_seed ^ tag(engine) ^ splitmix64(i.wrapping_mul(0x2545_f491_4f6c_dd1d)))
}

#[derive(Clone, Debug)]
pub struct Rng {
    s: [u64; 4],
}

impl Rng {
    pub fn new(seed: u64) -> Self {
        let mut x = seed;
        let mut s = [0u64; 4];
        for v in s.iter_mut() {
            x = x.wrapping_add(0x9e37_79b9_7f4a_7c15);
            *v = splitmix64(x);
        }
        if s == [0; 4] {
            s[0] = 1;
        }
        Rng { s }
    }
    pub fn next_u64(&mut self) -> u64 {
        let r = self.s[1].wrapping_mul(5).rotate_left(7).wrapping_mul(9);
        let t = self.s[1] << 17;
        self.s[2] ^= self.s[0];
        self.s[3] ^= self.s[1];
        self.s[1] ^= self.s[2];
        self.s[0] ^= self.s[3];
        self.s[2] ^= t;
        self.s[3] = self.s[3].rotate_left(45);
        r
    }
    /// uniform in 0..n (n > 0)
    pub fn below(&mut self, n: u64) -> u64 {
        debug_assert!(n > 0);
        // multiply-shift; bias is irrelevant for a simulator
        ((self.next_u64() as u128 * n as u128) >> 64) as u64
    }
    pub fn range(&mut self, lo: u64, hi_incl: u64) -> u64 {
        lo + self.below(hi_incl - lo + 1)
    }
    pub fn usize(&mut self, n: usize) -> usize {
        self.below(n as u64) as usize
    }
    pub fn chance(&mut self, num: u64, den: u64) -> bool {
        self.below(den) < num
    }
    pub fn bool(&mut self) -> bool {
        self.next_u64() & 1 == 1
    }
    pub fn pick<'a, T>(&mut self, xs: &'a [T]) -> &'a T {
        &xs[self.usize(xs.len())]
    }
    pub fn bytes(&mut self, n: usize) -> Vec<u8> {
        let mut v = Vec::with_capacity(n);
        while v.len() < n {
            let x = self.next_u64().to_le_bytes();
            let k = (n - v.len()).min(8);
            v.extend_from_slice(&x[..k]);
        }
        v
    }
    /// a child stream that does not disturb this one beyond one draw
    pub fn fork(&mut self) -> Rng {
        Rng::new(self.next_u64())
    }
    pub fn shuffle<T>(&mut self, xs: &mut [T]) {
        for i in (1..xs.len()).rev() {
            let j = self.usize(i + 1);
            xs.swap(i, j);
        }
    }
}
