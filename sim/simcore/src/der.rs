//! Strict DER TLV reader written for this harness. It shares no code with yasna or
//! x509-parser and is used only to *locate* things (children of a SEQUENCE, an
//! AlgorithmIdentifier, an RDNSequence) and to insist on definite, minimal lengths.

#[derive(Clone, Copy, Debug, PartialEq, Eq)]
pub struct Tlv<'a> {
    pub tag: u8,
    /// the complete encoding (identifier, length, content)
    pub raw: &'a [u8],
    pub content: &'a [u8],
}

#[derive(Debug, Clone, PartialEq, Eq)]
pub struct DerError(pub String);

fn err<T>(s: impl Into<String>) -> Result<T, DerError> {
    Err(DerError(s.into()))
}

pub const SEQ: u8 = 0x30;
pub const SET: u8 = 0x31;
pub const BITSTRING: u8 = 0x03;
pub const OID: u8 = 0x06;
pub const INTEGER: u8 = 0x02;
pub const OCTETSTRING: u8 = 0x04;

/// Reads one TLV from the front of `buf`, returns it and the rest.
pub fn read_tlv(buf: &[u8]) -> Result<(Tlv<'_>, &[u8]), DerError> {
    if buf.len() < 2 {
        return err("truncated header");
    }
    let tag = buf[0];
    if tag & 0x1f == 0x1f {
        return err("high tag number form not expected");
    }
    let l0 = buf[1];
    let (len, hdr) = if l0 < 0x80 {
        (l0 as usize, 2usize)
    } else if l0 == 0x80 {
        return err("indefinite length");
    } else {
        let n = (l0 & 0x7f) as usize;
        if n > 4 {
            return err("length of length > 4");
        }
        if buf.len() < 2 + n {
            return err("truncated length");
        }
        let mut len = 0usize;
        for b in &buf[2..2 + n] {
            len = (len << 8) | *b as usize;
        }
        if buf[2] == 0 {
            return err("non-minimal length (leading zero)");
        }
        if len < 0x80 {
            return err("non-minimal length (long form for short value)");
        }
        (len, 2 + n)
    };
    if buf.len() < hdr + len {
        return err(format!("content truncated: need {} have {}", hdr + len, buf.len()));
    }
    let t = Tlv { tag, raw: &buf[..hdr + len], content: &buf[hdr..hdr + len] };
    Ok((t, &buf[hdr + len..]))
}

/// Reads exactly one TLV covering all of `buf`.
pub fn read_single(buf: &[u8]) -> Result<Tlv<'_>, DerError> {
    let (t, rest) = read_tlv(buf)?;
    if !rest.is_empty() {
        return err(format!("{} trailing bytes", rest.len()));
    }
    Ok(t)
}

/// Splits the content of a constructed value into its children.
pub fn children(content: &[u8]) -> Result<Vec<Tlv<'_>>, DerError> {
    let mut v = Vec::new();
    let mut rest = content;
    while !rest.is_empty() {
        let (t, r) = read_tlv(rest)?;
        v.push(t);
        rest = r;
    }
    Ok(v)
}

/// The three parts of `SEQUENCE { tbs, algId, BIT STRING }`.
pub struct Signed<'a> {
    pub tbs: Tlv<'a>,
    pub alg: Tlv<'a>,
    /// BIT STRING content after the unused-bits octet
    pub sig: &'a [u8],
}

pub fn split_signed(der: &[u8]) -> Result<Signed<'_>, DerError> {
    let outer = read_single(der)?;
    if outer.tag != SEQ {
        return err("outer is not a SEQUENCE");
    }
    let ch = children(outer.content)?;
    if ch.len() != 3 {
        return err(format!("outer SEQUENCE has {} children, want 3", ch.len()));
    }
    if ch[0].tag != SEQ {
        return err("tbs is not a SEQUENCE");
    }
    if ch[1].tag != SEQ {
        return err("signatureAlgorithm is not a SEQUENCE");
    }
    if ch[2].tag != BITSTRING {
        return err("signature is not a BIT STRING");
    }
    if ch[2].content.is_empty() {
        return err("BIT STRING without unused-bits octet");
    }
    if ch[2].content[0] != 0 {
        return err("BIT STRING has unused bits");
    }
    Ok(Signed { tbs: ch[0], alg: ch[1], sig: &ch[2].content[1..] })
}

/// Decodes an OBJECT IDENTIFIER content into arcs.
pub fn oid_arcs(content: &[u8]) -> Result<Vec<u64>, DerError> {
    if content.is_empty() {
        return err("empty OID");
    }
    let mut arcs = Vec::new();
    let mut acc: u64 = 0;
    let mut first = true;
    let mut started = false;
    for &b in content {
        if !started && b == 0x80 {
            return err("non-minimal OID arc");
        }
        started = true;
        if acc >> 57 != 0 {
            return err("OID arc overflow");
        }
        acc = (acc << 7) | (b & 0x7f) as u64;
        if b & 0x80 == 0 {
            if first {
                let (a, b2) = if acc < 40 {
                    (0, acc)
                } else if acc < 80 {
                    (1, acc - 40)
                } else {
                    (2, acc - 80)
                };
                arcs.push(a);
                arcs.push(b2);
                first = false;
            } else {
                arcs.push(acc);
            }
            acc = 0;
            started = false;
        }
    }
    if started {
        return err("truncated OID arc");
    }
    Ok(arcs)
}

/// Encodes OID arcs (independent of yasna), for comparing against names read back.
pub fn encode_oid_content(arcs: &[u64]) -> Vec<u8> {
    let mut out = Vec::new();
    let mut push = |mut v: u128| {
        let mut tmp = vec![(v & 0x7f) as u8];
        v >>= 7;
        while v > 0 {
            tmp.push(((v & 0x7f) as u8) | 0x80);
            v >>= 7;
        }
        tmp.reverse();
        out.extend_from_slice(&tmp);
    };
    push(arcs[0] as u128 * 40 + arcs[1] as u128);
    for a in &arcs[2..] {
        push(*a as u128);
    }
    out
}

/// One attribute of a Name as it appears on the wire.
#[derive(Clone, Debug, PartialEq, Eq)]
pub struct WireAttr {
    pub oid: Vec<u64>,
    pub value_tag: u8,
    pub value: Vec<u8>,
}

/// Reads `Name ::= SEQUENCE OF SET OF SEQUENCE { OID, value }`, insisting on exactly one
/// attribute per RDN (what rcgen writes).
pub fn read_name(name: Tlv<'_>) -> Result<Vec<WireAttr>, DerError> {
    if name.tag != SEQ {
        return err("Name is not a SEQUENCE");
    }
    let mut out = Vec::new();
    for rdn in children(name.content)? {
        if rdn.tag != SET {
            return err("RDN is not a SET");
        }
        let atvs = children(rdn.content)?;
        if atvs.len() != 1 {
            return err(format!("RDN has {} attributes", atvs.len()));
        }
        if atvs[0].tag != SEQ {
            return err("AttributeTypeAndValue is not a SEQUENCE");
        }
        let parts = children(atvs[0].content)?;
        if parts.len() != 2 || parts[0].tag != OID {
            return err("malformed AttributeTypeAndValue");
        }
        out.push(WireAttr {
            oid: oid_arcs(parts[0].content)?,
            value_tag: parts[1].tag,
            value: parts[1].content.to_vec(),
        });
    }
    Ok(out)
}

#[cfg(test)]
mod tests {
    use super::*;
    #[test]
    fn lengths() {
        assert!(read_single(&[0x30, 0x00]).is_ok());
        assert!(read_single(&[0x30, 0x81, 0x05, 0, 0, 0, 0, 0]).is_err()); // non-minimal
        assert!(read_single(&[0x30, 0x80, 0, 0]).is_err()); // indefinite
        assert!(read_single(&[0x30, 0x01, 0, 0]).is_err()); // trailing
        let mut v = vec![0x04, 0x81, 0x80];
        v.extend(std::iter::repeat(7u8).take(128));
        assert_eq!(read_single(&v).unwrap().content.len(), 128);
    }
    #[test]
    fn oid_roundtrip() {
        for arcs in [vec![2u64, 5, 4, 3], vec![1, 2, 840, 113549, 1, 1, 11], vec![2, 999, 3], vec![0, 39, u64::MAX >> 8]] {
            let enc = encode_oid_content(&arcs);
            assert_eq!(oid_arcs(&enc).unwrap(), arcs);
        }
    }
}
