//! Small SHA-256 (FIPS 180-4) used for trace/event-log digests. Pure Rust so that the
//! Miri build can use it too. Not used as a cryptographic oracle.
const K: [u32; 64] = [
    0x428a2f98, 0x71374491, 0xb5c0fbcf, 0xe9b5dba5, 0x3956c25b, 0x59f111f1, 0x923f82a4, 0xab1c5ed5, 0xd807aa98, 0x12835b01,
    0x243185be, 0x550c7dc3, 0x72be5d74, 0x80deb1fe, 0x9bdc06a7, 0xc19bf174, 0xe49b69c1, 0xefbe4786, 0x0fc19dc6, 0x240ca1cc,
    0x2de92c6f, 0x4a7484aa, 0x5cb0a9dc, 0x76f988da, 0x983e5152, 0xa831c66d, 0xb00327c8, 0xbf597fc7, 0xc6e00bf3, 0xd5a79147,
    0x06ca6351, 0x14292967, 0x27b70a85, 0x2e1b2138, 0x4d2c6dfc, 0x53380d13, 0x650a7354, 0x766a0abb, 0x81c2c92e, 0x92722c85,
    0xa2bfe8a1, 0xa81a664b, 0xc24b8b70, 0xc76c51a3, 0xd192e819, 0xd6990624, 0xf40e3585, 0x106aa070, 0x19a4c116, 0x1e376c08,
    0x2748774c, 0x34b0bcb5, 0x391c0cb3, 0x4ed8aa4a, 0x5b9cca4f, 0x682e6ff3, 0x748f82ee, 0x78a5636f, 0x84c87814, 0x8cc70208,
    0x90befffa, 0xa4506ceb, 0xbef9a3f7, 0xc67178f2,
];

pub fn sha256(data: &[u8]) -> [u8; 32] {
    let mut h: [u32; 8] =
        [0x6a09e667, 0xbb67ae85, 0x3c6ef372, 0xa54ff53a, 0x510e527f, 0x9b05688c, 0x1f83d9ab, 0x5be0cd19];
    let mut msg = data.to_vec();
    let bitlen = (data.len() as u64).wrapping_mul(8);
    msg.push(0x80);
    while msg.len() % 64 != 56 {
        msg.push(0);
    }
    msg.extend_from_slice(&bitlen.to_be_bytes());
    for chunk in msg.chunks(64) {
        let mut w = [0u32; 64];
        for i in 0..16 {
            w[i] = u32::from_be_bytes([chunk[4 * i], chunk[4 * i + 1], chunk[4 * i + 2], chunk[4 * i + 3]]);
        }
        for i in 16..64 {
            let s0 = w[i - 15].rotate_right(7) ^ w[i - 15].rotate_right(18) ^ (w[i - 15] >> 3);
            let s1 = w[i - 2].rotate_right(17) ^ w[i - 2].rotate_right(19) ^ (w[i - 2] >> 10);
            w[i] = w[i - 16].wrapping_add(s0).wrapping_add(w[i - 7]).wrapping_add(s1);
        }
        let mut a = h;
        for i in 0..64 {
            let s1 = a[4].rotate_right(6) ^ a[4].rotate_right(11) ^ a[4].rotate_right(25);
            let ch = (a[4] & a[5]) ^ (!a[4] & a[6]);
            let t1 = a[7].wrapping_add(s1).wrapping_add(ch).wrapping_add(K[i]).wrapping_add(w[i]);
            let s0 = a[0].rotate_right(2) ^ a[0].rotate_right(13) ^ a[0].rotate_right(22);
            let maj = (a[0] & a[1]) ^ (a[0] & a[2]) ^ (a[1] & a[2]);
            let t2 = s0.wrapping_add(maj);
            a[7] = a[6];
            a[6] = a[5];
            a[5] = a[4];
            a[4] = a[3].wrapping_add(t1);
            a[3] = a[2];
            a[2] = a[1];
            a[1] = a[0];
            a[0] = t1.wrapping_add(t2);
        }
        for i in 0..8 {
            h[i] = h[i].wrapping_add(a[i]);
        }
    }
    let mut out = [0u8; 32];
    for i in 0..8 {
        out[4 * i..4 * i + 4].copy_from_slice(&h[i].to_be_bytes());
    }
    out
}

pub fn hex(b: &[u8]) -> String {
    let mut s = String::with_capacity(b.len() * 2);
    for x in b {
        s.push_str(&format!("{:02x}", x));
    }
    s
}

pub fn unhex(s: &str) -> Option<Vec<u8>> {
    if s.len() % 2 != 0 {
        return None;
    }
    (0..s.len()).step_by(2).map(|i| u8::from_str_radix(&s[i..i + 2], 16).ok()).collect()
}

pub fn sha256_hex(data: &[u8]) -> String {
    hex(&sha256(data))
}

/// short digest for event logs
pub fn short(data: &[u8]) -> String {
    hex(&sha256(data)[..8])
}

#[cfg(test)]
mod tests {
    use super::*;
    #[test]
    fn vectors() {
        assert_eq!(sha256_hex(b""), "e3b0c44298fc1c149afbf4c8996fb92427ae41e4649b934ca495991b7852b855");
        assert_eq!(sha256_hex(b"abc"), "ba7816bf8f01cfea414140de5dae2223b00361a396177a9cb410ff61f20015ad");
        let m = vec![b'a'; 1000];
        assert_eq!(sha256_hex(&m), "41edece42d63e8d9bf515a9ba6932e1c20cbc9f5a5d134645adb5db1b9737ea3");
    }
}
