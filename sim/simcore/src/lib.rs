//! Shared, rcgen-independent parts of the simulator.
pub mod algid;
pub mod der;
pub mod engine;
pub mod prng;
pub mod sha256;

pub use algid::Alg;
pub use prng::Rng;

/// serde helper: Vec<u8> as hex string (keeps traces readable and compact)
pub mod hexbytes {
    use serde::{Deserialize, Deserializer, Serializer};
    pub fn serialize<S: Serializer>(v: &Vec<u8>, s: S) -> Result<S::Ok, S::Error> {
        s.serialize_str(&crate::sha256::hex(v))
    }
    pub fn deserialize<'de, D: Deserializer<'de>>(d: D) -> Result<Vec<u8>, D::Error> {
        let s = String::deserialize(d)?;
        crate::sha256::unhex(&s).ok_or_else(|| serde::de::Error::custom("bad hex"))
    }
}

/// Standard base64 (RFC 4648) with 64-column lines, for building PEM text independently
/// of the `pem` crate.
pub fn pem_encode(label: &str, der: &[u8]) -> String {
    const T: &[u8; 64] = b"ABCDEFGHIJKLMNOPQRSTUVWXYZabcdefghijklmnopqrstuvwxyz0123456789+/";
    let mut b64 = String::new();
    for c in der.chunks(3) {
        let n = (c[0] as u32) << 16 | (*c.get(1).unwrap_or(&0) as u32) << 8 | *c.get(2).unwrap_or(&0) as u32;
        b64.push(T[(n >> 18) as usize & 63] as char);
        b64.push(T[(n >> 12) as usize & 63] as char);
        b64.push(if c.len() > 1 { T[(n >> 6) as usize & 63] as char } else { '=' });
        b64.push(if c.len() > 2 { T[n as usize & 63] as char } else { '=' });
    }
    let mut out = format!("-----BEGIN {}-----\n", label);
    for line in b64.as_bytes().chunks(64) {
        out.push_str(std::str::from_utf8(line).unwrap());
        out.push('\n');
    }
    out.push_str(&format!("-----END {}-----\n", label));
    out
}

/// Decodes the first PEM block: (label, der). Tolerant of CRLF.
pub fn pem_decode(text: &str) -> Option<(String, Vec<u8>)> {
    let start = text.find("-----BEGIN ")?;
    let rest = &text[start + 11..];
    let lend = rest.find("-----")?;
    let label = rest[..lend].to_string();
    let body_start = lend + 5;
    let end_marker = format!("-----END {}-----", label);
    let body_end = rest.find(&end_marker)?;
    let mut acc: u32 = 0;
    let mut bits = 0;
    let mut out = Vec::new();
    for ch in rest[body_start..body_end].bytes() {
        let v = match ch {
            b'A'..=b'Z' => ch - b'A',
            b'a'..=b'z' => ch - b'a' + 26,
            b'0'..=b'9' => ch - b'0' + 52,
            b'+' => 62,
            b'/' => 63,
            b'=' | b'\n' | b'\r' | b' ' => continue,
            _ => return None,
        };
        acc = (acc << 6) | v as u32;
        bits += 6;
        if bits >= 8 {
            bits -= 8;
            out.push((acc >> bits) as u8);
            acc &= (1 << bits) - 1;
        }
    }
    Some((label, out))
}
