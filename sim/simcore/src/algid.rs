//! Hand-written table of the RFC 4055 / 5758 / 8410 AlgorithmIdentifier encodings.
//! Independent of rcgen's own table (rcgen/src/sign_algo.rs).
use serde::{Deserialize, Serialize};

#[derive(Clone, Copy, Debug, PartialEq, Eq, Hash, Serialize, Deserialize, PartialOrd, Ord)]
pub enum Alg {
    RsaSha256,
    RsaSha384,
    RsaSha512,
    P256,
    P384,
    P521,
    Ed25519,
}

pub const ALL_ALGS: [Alg; 7] =
    [Alg::RsaSha256, Alg::RsaSha384, Alg::RsaSha512, Alg::P256, Alg::P384, Alg::P521, Alg::Ed25519];

impl Alg {
    /// signatureAlgorithm AlgorithmIdentifier, complete TLV.
    pub fn sig_alg_id(self) -> &'static [u8] {
        match self {
            // sha256WithRSAEncryption 1.2.840.113549.1.1.11, NULL parameters (RFC 4055 §5)
            Alg::RsaSha256 => &[0x30, 0x0d, 0x06, 0x09, 0x2a, 0x86, 0x48, 0x86, 0xf7, 0x0d, 0x01, 0x01, 0x0b, 0x05, 0x00],
            Alg::RsaSha384 => &[0x30, 0x0d, 0x06, 0x09, 0x2a, 0x86, 0x48, 0x86, 0xf7, 0x0d, 0x01, 0x01, 0x0c, 0x05, 0x00],
            Alg::RsaSha512 => &[0x30, 0x0d, 0x06, 0x09, 0x2a, 0x86, 0x48, 0x86, 0xf7, 0x0d, 0x01, 0x01, 0x0d, 0x05, 0x00],
            // ecdsa-with-SHA256 1.2.840.10045.4.3.2, parameters absent (RFC 5758 §3.2)
            Alg::P256 => &[0x30, 0x0a, 0x06, 0x08, 0x2a, 0x86, 0x48, 0xce, 0x3d, 0x04, 0x03, 0x02],
            Alg::P384 => &[0x30, 0x0a, 0x06, 0x08, 0x2a, 0x86, 0x48, 0xce, 0x3d, 0x04, 0x03, 0x03],
            Alg::P521 => &[0x30, 0x0a, 0x06, 0x08, 0x2a, 0x86, 0x48, 0xce, 0x3d, 0x04, 0x03, 0x04],
            // id-Ed25519 1.3.101.112, parameters absent (RFC 8410 §3)
            Alg::Ed25519 => &[0x30, 0x05, 0x06, 0x03, 0x2b, 0x65, 0x70],
        }
    }
    /// AlgorithmIdentifier inside SubjectPublicKeyInfo, complete TLV.
    pub fn spki_alg_id(self) -> &'static [u8] {
        match self {
            Alg::RsaSha256 | Alg::RsaSha384 | Alg::RsaSha512 => {
                &[0x30, 0x0d, 0x06, 0x09, 0x2a, 0x86, 0x48, 0x86, 0xf7, 0x0d, 0x01, 0x01, 0x01, 0x05, 0x00]
            }
            Alg::P256 => &[
                0x30, 0x13, 0x06, 0x07, 0x2a, 0x86, 0x48, 0xce, 0x3d, 0x02, 0x01, 0x06, 0x08, 0x2a, 0x86, 0x48, 0xce, 0x3d, 0x03,
                0x01, 0x07,
            ],
            Alg::P384 => &[0x30, 0x10, 0x06, 0x07, 0x2a, 0x86, 0x48, 0xce, 0x3d, 0x02, 0x01, 0x06, 0x05, 0x2b, 0x81, 0x04, 0x00, 0x22],
            Alg::P521 => &[0x30, 0x10, 0x06, 0x07, 0x2a, 0x86, 0x48, 0xce, 0x3d, 0x02, 0x01, 0x06, 0x05, 0x2b, 0x81, 0x04, 0x00, 0x23],
            Alg::Ed25519 => &[0x30, 0x05, 0x06, 0x03, 0x2b, 0x65, 0x70],
        }
    }
    /// Arcs of the signature algorithm OID (hand-written, as in RFC 4055 / 5758 / 8410).
    pub fn sig_oid_arcs(self) -> &'static [u64] {
        match self {
            Alg::RsaSha256 => &[1, 2, 840, 113549, 1, 1, 11],
            Alg::RsaSha384 => &[1, 2, 840, 113549, 1, 1, 12],
            Alg::RsaSha512 => &[1, 2, 840, 113549, 1, 1, 13],
            Alg::P256 => &[1, 2, 840, 10045, 4, 3, 2],
            Alg::P384 => &[1, 2, 840, 10045, 4, 3, 3],
            Alg::P521 => &[1, 2, 840, 10045, 4, 3, 4],
            Alg::Ed25519 => &[1, 3, 101, 112],
        }
    }
    pub fn is_rsa(self) -> bool {
        matches!(self, Alg::RsaSha256 | Alg::RsaSha384 | Alg::RsaSha512)
    }
    pub fn is_ecdsa(self) -> bool {
        matches!(self, Alg::P256 | Alg::P384 | Alg::P521)
    }
    /// Signature bytes are a function of (key, message) only.
    pub fn deterministic_sig(self) -> bool {
        self.is_rsa() || self == Alg::Ed25519
    }
    pub fn name(self) -> &'static str {
        match self {
            Alg::RsaSha256 => "rsa-sha256",
            Alg::RsaSha384 => "rsa-sha384",
            Alg::RsaSha512 => "rsa-sha512",
            Alg::P256 => "p256",
            Alg::P384 => "p384",
            Alg::P521 => "p521",
            Alg::Ed25519 => "ed25519",
        }
    }
}
