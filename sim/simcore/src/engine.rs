//! Engine-independent run loop: seed derivation, explicit traces, execution with panic
//! capture, event-log hashing, delta-debugging minimiser, worker output protocol.

use std::collections::{BTreeMap, BTreeSet};
use std::io::Write;
use std::panic::{catch_unwind, AssertUnwindSafe};

use serde::de::DeserializeOwned;
use serde::Serialize;
use serde_json::json;

#[derive(Clone, Debug, PartialEq, Eq, Serialize, serde::Deserialize)]
pub struct Violation {
    pub class: String,
    pub detail: String,
}

#[derive(Default, Serialize, serde::Deserialize)]
pub struct Outcome {
    /// deterministic event log of the run (what happened, digests of outputs)
    pub log: Vec<String>,
    pub counters: BTreeMap<String, u64>,
    pub cover: BTreeMap<String, BTreeSet<u64>>,
    pub nontrivial: bool,
    pub violation: Option<Violation>,
    /// set by the watchdog
    #[serde(default)]
    pub hung: bool,
}

impl Outcome {
    pub fn count(&mut self, k: &str, n: u64) {
        *self.counters.entry(k.to_string()).or_insert(0) += n;
    }
    pub fn ev(&mut self, s: String) {
        self.log.push(s);
    }
    pub fn violate(&mut self, class: &str, detail: String) {
        if self.violation.is_none() {
            self.violation = Some(Violation { class: class.to_string(), detail });
        }
    }
    pub fn covered(&mut self, key: &str, v: u64) {
        self.cover.entry(key.to_string()).or_default().insert(v);
    }
}

#[derive(Clone, Copy, PartialEq, Eq, Debug)]
pub enum Tier {
    Quick,
    Thorough,
}

pub trait Engine {
    type Trace: Serialize + DeserializeOwned + Clone;
    const NAME: &'static str;
    /// Materialise the PRNG into an explicit trace.
    fn generate(run_seed: u64, index: u64, tier: Tier, mode: &str) -> Self::Trace;
    /// Execute an explicit trace. Must not consult anything but the trace.
    fn execute(trace: &Self::Trace) -> Outcome;
    /// One-step reductions, most aggressive first.
    fn shrink(trace: &Self::Trace) -> Vec<Self::Trace>;
    /// A run that does not finish within the watchdog limit is retried once with the trace this
    /// returns (e.g. a coarser schedule); None = a hang is a violation as it stands.
    fn on_hang(_trace: &Self::Trace) -> Option<Self::Trace> {
        None
    }
    /// Watchdog limit for one run of this engine, seconds of wall time (overridden by
    /// VERIF_RUN_WATCHDOG_S).
    const WATCHDOG_S: u64 = 120;
}

thread_local! {
    static LAST_PANIC: std::cell::RefCell<String> = const { std::cell::RefCell::new(String::new()) };
}

pub fn install_quiet_panic_hook() {
    std::panic::set_hook(Box::new(|info| {
        let loc = info.location().map(|l| format!("{}:{}", l.file(), l.line())).unwrap_or_default();
        let msg = if let Some(s) = info.payload().downcast_ref::<&str>() {
            s.to_string()
        } else if let Some(s) = info.payload().downcast_ref::<String>() {
            s.clone()
        } else {
            "<non-string panic>".to_string()
        };
        LAST_PANIC.with(|p| *p.borrow_mut() = format!("{msg} @ {loc}"));
    }));
}

pub fn last_panic() -> String {
    LAST_PANIC.with(|p| p.borrow().clone())
}

/// Runs a closure, turning a panic into Err(message).
pub fn guarded<T>(f: impl FnOnce() -> T) -> Result<T, String> {
    match catch_unwind(AssertUnwindSafe(f)) {
        Ok(v) => Ok(v),
        Err(_) => Err(last_panic()),
    }
}

pub fn execute_guarded<E: Engine>(trace: &E::Trace) -> Outcome {
    match guarded(|| E::execute(trace)) {
        Ok(o) => o,
        Err(msg) => {
            // a panic that escaped the engine's own per-operation guards is a harness problem
            let mut o = Outcome::default();
            o.violate("harness-panic", msg);
            o
        }
    }
}

// ---------------------------------------------------------------------------------------
// Process isolation: every run executes in a forked child of the worker, so that a run's
// result is a function of its trace alone — hidden process-wide state in the system under
// test (a static counter, a cache) cannot leak from one run into the next, and a violation
// found in a batch replays identically in a fresh process.
// ---------------------------------------------------------------------------------------

extern "C" {
    fn fork() -> i32;
    fn pipe(fds: *mut i32) -> i32;
    fn waitpid(pid: i32, status: *mut i32, options: i32) -> i32;
    fn kill(pid: i32, sig: i32) -> i32;
    fn _exit(code: i32) -> !;
}

/// Watchdog for one isolated run, in seconds of wall time. It never influences a schedule: it
/// only ends a child that no longer makes progress (a run normally takes well under a second).
pub fn watchdog_secs() -> u64 {
    watchdog_secs_or(120)
}

pub fn watchdog_secs_or(default: u64) -> u64 {
    std::env::var("VERIF_RUN_WATCHDOG_S").ok().and_then(|s| s.parse().ok()).unwrap_or(default)
}

/// Called in the child before a run starts (e.g. to reseed the system-call seam).
pub type ChildInit = fn(u64);

pub fn execute_isolated<E: Engine>(trace: &E::Trace, run_seed: u64, init: Option<ChildInit>) -> Outcome {
    use std::io::{Read, Write};
    use std::os::fd::FromRawFd;
    let mut fds = [0i32; 2];
    if unsafe { pipe(fds.as_mut_ptr()) } != 0 {
        panic!("pipe failed");
    }
    std::io::stdout().flush().ok();
    let pid = unsafe { fork() };
    if pid < 0 {
        panic!("fork failed");
    }
    if pid == 0 {
        // child
        let mut w = unsafe { std::fs::File::from_raw_fd(fds[1]) };
        drop(unsafe { std::fs::File::from_raw_fd(fds[0]) });
        if let Some(f) = init {
            f(run_seed);
        }
        let o = execute_guarded::<E>(trace);
        let bytes = serde_json::to_vec(&o).unwrap_or_default();
        let _ = w.write_all(&bytes);
        let _ = w.flush();
        drop(w);
        unsafe { _exit(0) }
    }
    drop(unsafe { std::fs::File::from_raw_fd(fds[1]) });
    let mut r = unsafe { std::fs::File::from_raw_fd(fds[0]) };
    // read the child's report on a helper thread so that the watchdog can end a stuck child
    let (tx, rx) = std::sync::mpsc::channel::<Vec<u8>>();
    let reader = std::thread::spawn(move || {
        let mut buf = Vec::new();
        let _ = r.read_to_end(&mut buf);
        let _ = tx.send(buf);
    });
    let limit = std::time::Duration::from_secs(watchdog_secs_or(E::WATCHDOG_S));
    let mut status = 0i32;
    let mut hung = false;
    let buf = match rx.recv_timeout(limit) {
        Ok(b) => {
            unsafe { waitpid(pid, &mut status, 0) };
            b
        }
        Err(_) => {
            hung = true;
            unsafe { kill(pid, 9) };
            unsafe { waitpid(pid, &mut status, 0) };
            rx.recv().unwrap_or_default()
        }
    };
    let _ = reader.join();
    if hung {
        let mut o = Outcome::default();
        o.hung = true;
        o.violate("process-hung", format!("the run made no progress for {} s and was ended by the watchdog", limit.as_secs()));
        return o;
    }
    match serde_json::from_slice::<Outcome>(&buf) {
        Ok(o) => o,
        Err(_) => {
            // the child died without reporting: abort, stack overflow, kill
            let mut o = Outcome::default();
            o.violate("process-died", format!("the run's process ended abnormally (wait status {status:#x}) without reporting"));
            o
        }
    }
}

/// Runs a closure in a forked child and returns its (serialisable) result; None if the child died.
pub fn in_child<T: Serialize + DeserializeOwned>(f: impl FnOnce() -> T) -> Option<T> {
    use std::io::{Read, Write};
    use std::os::fd::FromRawFd;
    let mut fds = [0i32; 2];
    if unsafe { pipe(fds.as_mut_ptr()) } != 0 {
        return None;
    }
    std::io::stdout().flush().ok();
    let pid = unsafe { fork() };
    if pid < 0 {
        return None;
    }
    if pid == 0 {
        let mut w = unsafe { std::fs::File::from_raw_fd(fds[1]) };
        drop(unsafe { std::fs::File::from_raw_fd(fds[0]) });
        if let Ok(v) = guarded(f) {
            let _ = w.write_all(&serde_json::to_vec(&v).unwrap_or_default());
        }
        let _ = w.flush();
        drop(w);
        unsafe { _exit(0) }
    }
    drop(unsafe { std::fs::File::from_raw_fd(fds[1]) });
    let mut r = unsafe { std::fs::File::from_raw_fd(fds[0]) };
    let mut buf = Vec::new();
    let _ = r.read_to_end(&mut buf);
    let mut status = 0i32;
    unsafe { waitpid(pid, &mut status, 0) };
    serde_json::from_slice::<T>(&buf).ok()
}

fn run_one<E: Engine>(trace: &E::Trace, run_seed: u64, isolate: bool, init: Option<ChildInit>) -> Outcome {
    if isolate {
        static HANGS: std::sync::atomic::AtomicU32 = std::sync::atomic::AtomicU32::new(0);
        // after three hung runs in this worker the remaining runs use the coarser form at once
        if HANGS.load(std::sync::atomic::Ordering::Relaxed) >= 3 {
            if let Some(coarser) = E::on_hang(trace) {
                let mut o2 = execute_isolated::<E>(&coarser, run_seed, init);
                o2.count("runs_started_with_coarser_schedule_after_repeated_hangs", 1);
                return o2;
            }
        }
        let o = execute_isolated::<E>(trace, run_seed, init);
        if o.hung {
            HANGS.fetch_add(1, std::sync::atomic::Ordering::Relaxed);
            if let Some(coarser) = E::on_hang(trace) {
                let mut o2 = execute_isolated::<E>(&coarser, run_seed, init);
                o2.count("runs_hung_then_completed_with_coarser_schedule", if o2.hung { 0 } else { 1 });
                return o2;
            }
        }
        o
    } else {
        if let Some(f) = init {
            f(run_seed);
        }
        execute_guarded::<E>(trace)
    }
}

pub fn trace_hash<T: Serialize>(t: &T) -> String {
    crate::sha256::short(serde_json::to_string(t).unwrap().as_bytes())
}

pub fn log_hash(o: &Outcome) -> String {
    let mut s = o.log.join("\n");
    if let Some(v) = &o.violation {
        s.push_str(&format!("\nVIOLATION {} {}", v.class, v.detail));
    }
    crate::sha256::short(s.as_bytes())
}

pub struct WorkerArgs {
    pub verif_seed: u64,
    pub from: u64,
    pub to: u64,
    pub stride: u64,
    pub offset: u64,
    pub tier: Tier,
    pub mode: String,
    pub max_samples: usize,
    pub stop_on_violation: bool,
    /// fork one child per run
    pub isolate: bool,
    pub child_init: Option<ChildInit>,
}

/// Worker loop: runs indices from..to with i % stride == offset, prints JSONL.
pub fn worker<E: Engine>(a: &WorkerArgs) {
    let out = std::io::stdout();
    let mut out = std::io::BufWriter::new(out.lock());
    let mut counters: BTreeMap<String, u64> = BTreeMap::new();
    let mut cover: BTreeMap<String, BTreeSet<u64>> = BTreeMap::new();
    let mut samples = Vec::new();
    let mut runs = 0u64;
    let mut hung_runs = 0u32;
    let start = std::time::Instant::now(); // wall time is reported, never consulted
    let mut i = a.from + ((a.offset + a.stride - a.from % a.stride) % a.stride);
    while i < a.to {
        let engine_tag = format!("{}/{}", E::NAME, a.mode);
        let rs = crate::prng::run_seed(a.verif_seed, &engine_tag, i);
        let trace = E::generate(rs, i, a.tier, &a.mode);
        let o = run_one::<E>(&trace, rs, a.isolate, a.child_init);
        runs += 1;
        for (k, v) in &o.counters {
            *counters.entry(k.clone()).or_insert(0) += v;
        }
        for (k, v) in &o.cover {
            cover.entry(k.clone()).or_default().extend(v.iter().copied());
        }
        if samples.len() < a.max_samples && (o.nontrivial || i < a.max_samples as u64) {
            samples.push(serde_json::to_value(&trace).unwrap());
        }
        let mut line = json!({"i": i, "s": format!("{:016x}", rs), "t": trace_hash(&trace), "l": log_hash(&o), "n": o.nontrivial as u8});
        let violated = o.violation.is_some();
        if let Some(v) = &o.violation {
            line["v"] = json!({"class": v.class, "detail": v.detail, "trace": serde_json::to_value(&trace).unwrap()});
        }
        writeln!(out, "{}", line).unwrap();
        if violated && a.stop_on_violation {
            break;
        }
        // a run that hangs even in its coarser form is reported like any violation, but every
        // further one costs a full watchdog period: three per worker are enough
        if o.hung {
            hung_runs += 1;
            if hung_runs >= 3 {
                *counters.entry("worker_stopped_after_three_hung_runs".into()).or_insert(0) += 1;
                break;
            }
        }
        i += a.stride;
    }
    let cover_json: BTreeMap<String, Vec<u64>> = cover.into_iter().map(|(k, v)| (k, v.into_iter().collect())).collect();
    writeln!(
        out,
        "{}",
        json!({"summary": {"runs": runs, "counters": counters, "cover": cover_json, "samples": samples,
               "wall_s": start.elapsed().as_secs_f64()}})
    )
    .unwrap();
    out.flush().unwrap();
}

/// Executes a trace file; prints the outcome; returns process exit code.
pub fn exec_file<E: Engine>(path: &str, verbose: bool, init: Option<ChildInit>) -> i32 {
    let text = std::fs::read_to_string(path).expect("read trace");
    let v: serde_json::Value = serde_json::from_str(&text).expect("trace json");
    let tv = if v.get("trace").is_some() { v["trace"].clone() } else { v.clone() };
    let trace: E::Trace = serde_json::from_value(tv).expect("trace shape");
    let rs = v.get("run_seed").and_then(|s| s.as_str()).and_then(|s| u64::from_str_radix(s, 16).ok()).unwrap_or(0);
    let o = run_one::<E>(&trace, rs, true, init);
    if verbose {
        for l in &o.log {
            println!("  {}", l);
        }
    }
    match &o.violation {
        Some(v) => {
            println!("{}", json!({"violation": {"class": v.class, "detail": v.detail}, "log_hash": log_hash(&o)}));
            1
        }
        None => {
            println!("{}", json!({"violation": null, "log_hash": log_hash(&o)}));
            0
        }
    }
}

/// Greedy delta debugging: keep any one-step reduction that preserves the violation class.
pub fn minimize_file<E: Engine>(path: &str, out_path: &str, budget_s: u64, isolate: bool, init: Option<ChildInit>) -> i32 {
    let text = std::fs::read_to_string(path).expect("read trace");
    let v: serde_json::Value = serde_json::from_str(&text).expect("trace json");
    let tv = if v.get("trace").is_some() { v["trace"].clone() } else { v.clone() };
    let mut cur: E::Trace = serde_json::from_value(tv).expect("trace shape");
    let rs = v.get("run_seed").and_then(|s| s.as_str()).and_then(|s| u64::from_str_radix(s, 16).ok()).unwrap_or(0);
    let o = run_one::<E>(&cur, rs, isolate, init);
    let Some(v0) = o.violation.clone() else {
        eprintln!("minimize: trace does not violate");
        return 2;
    };
    let start = std::time::Instant::now();
    let mut steps = 0usize;
    let mut tried = 0usize;
    let mut last = v0.clone();
    'outer: loop {
        if start.elapsed().as_secs() >= budget_s {
            break;
        }
        for cand in E::shrink(&cur) {
            if start.elapsed().as_secs() >= budget_s {
                break 'outer;
            }
            tried += 1;
            let oc = run_one::<E>(&cand, rs, isolate, init);
            if let Some(vc) = &oc.violation {
                if vc.class == v0.class {
                    cur = cand;
                    last = vc.clone();
                    steps += 1;
                    continue 'outer;
                }
            }
        }
        break;
    }
    let doc = json!({
        "engine": E::NAME,
        "violation": {"class": last.class, "detail": last.detail},
        "minimised": {"accepted_steps": steps, "candidates_tried": tried},
        "run_seed": format!("{:016x}", rs),
        "trace": serde_json::to_value(&cur).unwrap(),
    });
    std::fs::write(out_path, serde_json::to_string_pretty(&doc).unwrap()).expect("write minimised");
    0
}
