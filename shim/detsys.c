/* detsys.so — the "simulated kernel" seam for rcgen's only system-call surfaces:
 * randomness (getrandom), the CLI's file writes (open/write/mkdir) and the wall clock.
 *
 * Environment (all optional; without any of them every call passes through unchanged):
 *   DETSYS_RAND_SEED=<u64>     getrandom returns a splitmix64 stream seeded by this value
 *   DETSYS_PLAN=kind:k:errno[,kind:k:errno...]
 *                              the k-th call (0-based, per kind, since process start) of
 *                              kind in {getrandom, write, open, mkdir} fails. errno is one of
 *                              eintr, eio, enospc, eacces, eperm, emfile, short (short count);
 *                              for mkdir also "raced": not a failure of the call but another
 *                              process winning the race - the directory is created on its behalf
 *                              immediately before the tool's own call goes through (which then
 *                              meets EEXIST, as it would in a real race)
 *   DETSYS_CLOCK_OFFSET=<i64>  seconds added to clock_gettime(CLOCK_REALTIME)/gettimeofday/time
 *   DETSYS_CLOCK_ABS=<i64>     the wall clock reads exactly this many seconds since the epoch (frozen)
 *   DETSYS_REPORT=<path>       at exit, write one line of call counts and fired faults
 *
 * In-process control (looked up with dlsym by the simulator):
 *   detsys_arm_getrandom(k, kind)  count getrandom calls from now; fail the k-th (k<0: count only)
 *   detsys_disarm(&fired)          stop; returns the number of calls counted
 *
 * Only writes to descriptors > 2 are subject to write faults (stderr stays usable).
 */
#define _GNU_SOURCE
#include <dlfcn.h>
#include <errno.h>
#include <fcntl.h>
#include <stdarg.h>
#include <stdint.h>
#include <stdio.h>
#include <stdlib.h>
#include <string.h>
#include <sys/stat.h>
#include <sys/syscall.h>
#include <sys/time.h>
#include <sys/types.h>
#include <time.h>
#include <unistd.h>

enum { K_GETRANDOM, K_WRITE, K_OPEN, K_MKDIR, K_N };
static const char *KNAME[K_N] = {"getrandom", "write", "open", "mkdir"};

#define MAXPLAN 16
struct plan { int kind; long k; int err; int fired; };
static struct plan plans[MAXPLAN];
static int nplans;
static long counts[K_N];
static int inited;
static int have_seed;
static uint64_t rstate;
static long long clock_off;
static long long clock_abs;
static int have_abs;
static const char *report_path;
static long nraced;

/* in-process arming */
static int armed;
static long arm_k, arm_count;
static int arm_kind, arm_fired;

static long (*real_syscall)(long, ...);
static ssize_t (*real_write)(int, const void *, size_t);
static int (*real_mkdir)(const char *, mode_t);
static int (*real_clock_gettime)(clockid_t, struct timespec *);
static int (*real_gettimeofday)(struct timeval *, void *);

#define E_SHORT (-2)
#define E_RACED (-3)

static int parse_err(const char *s) {
  if (!strcmp(s, "eintr")) return EINTR;
  if (!strcmp(s, "eio")) return EIO;
  if (!strcmp(s, "enospc")) return ENOSPC;
  if (!strcmp(s, "eacces")) return EACCES;
  if (!strcmp(s, "eperm")) return EPERM;
  if (!strcmp(s, "emfile")) return EMFILE;
  if (!strcmp(s, "short")) return E_SHORT;
  if (!strcmp(s, "raced")) return E_RACED;
  return EIO;
}

static void init(void) {
  if (inited) return;
  inited = 1;
  real_syscall = dlsym(RTLD_NEXT, "syscall");
  real_write = dlsym(RTLD_NEXT, "write");
  real_mkdir = dlsym(RTLD_NEXT, "mkdir");
  real_clock_gettime = dlsym(RTLD_NEXT, "clock_gettime");
  real_gettimeofday = dlsym(RTLD_NEXT, "gettimeofday");
  const char *s = getenv("DETSYS_RAND_SEED");
  if (s && *s) { have_seed = 1; rstate = strtoull(s, NULL, 10); }
  s = getenv("DETSYS_CLOCK_OFFSET");
  if (s && *s) clock_off = strtoll(s, NULL, 10);
  s = getenv("DETSYS_CLOCK_ABS");
  if (s && *s) { clock_abs = strtoll(s, NULL, 10); have_abs = 1; }
  report_path = getenv("DETSYS_REPORT");
  s = getenv("DETSYS_PLAN");
  if (s && *s) {
    char *dup = strdup(s), *save = NULL;
    for (char *tok = strtok_r(dup, ",", &save); tok && nplans < MAXPLAN; tok = strtok_r(NULL, ",", &save)) {
      char kind[32], err[32]; long k;
      if (sscanf(tok, "%31[^:]:%ld:%31s", kind, &k, err) == 3) {
        for (int i = 0; i < K_N; i++)
          if (!strcmp(kind, KNAME[i])) { plans[nplans++] = (struct plan){i, k, parse_err(err), 0}; break; }
      }
    }
    free(dup);
  }
}

/* returns 0 = proceed, otherwise the errno (or E_SHORT) to inject for this call */
static int consult(int kind) {
  init();
  long idx = counts[kind]++;
  for (int i = 0; i < nplans; i++)
    if (plans[i].kind == kind && plans[i].k == idx) { plans[i].fired = 1; return plans[i].err; }
  return 0;
}

static uint64_t next64(void) {
  uint64_t z = (rstate += 0x9e3779b97f4a7c15ULL);
  z = (z ^ (z >> 30)) * 0xbf58476d1ce4e5b9ULL;
  z = (z ^ (z >> 27)) * 0x94d049bb133111ebULL;
  return z ^ (z >> 31);
}

static const int ARM_ERR[4] = {EINTR, E_SHORT, EIO, EPERM};

static ssize_t do_getrandom(void *buf, size_t len, unsigned flags) {
  int inj = consult(K_GETRANDOM);
  if (armed) {
    long idx = arm_count++;
    if (arm_k >= 0 && idx == arm_k && len > 0) { arm_fired = 1; inj = ARM_ERR[arm_kind & 3]; }
  }
  if (inj == E_SHORT) {
    if (len >= 2) len = len / 2; /* deliver a short count */
  } else if (inj > 0) {
    errno = inj;
    return -1;
  }
  if (!have_seed) return real_syscall(SYS_getrandom, buf, len, flags);
  unsigned char *p = buf;
  for (size_t i = 0; i < len;) {
    uint64_t x = next64();
    for (int j = 0; j < 8 && i < len; j++, i++) p[i] = (unsigned char)(x >> (8 * j));
  }
  return (ssize_t)len;
}

ssize_t getrandom(void *buf, size_t len, unsigned flags) { init(); return do_getrandom(buf, len, flags); }

long syscall(long n, ...) {
  init();
  va_list ap; va_start(ap, n);
  long a = va_arg(ap, long), b = va_arg(ap, long), c = va_arg(ap, long), d = va_arg(ap, long), e = va_arg(ap, long), f = va_arg(ap, long);
  va_end(ap);
  if (n == SYS_getrandom) return do_getrandom((void *)a, (size_t)b, (unsigned)c);
  return real_syscall(n, a, b, c, d, e, f);
}

void detsys_arm_getrandom(long k, int kind) { init(); armed = 1; arm_k = k; arm_kind = kind; arm_count = 0; arm_fired = 0; }
long detsys_disarm(int *fired) { long c = arm_count; if (fired) *fired = arm_fired; armed = 0; arm_count = 0; arm_fired = 0; return c; }
void detsys_reseed(uint64_t s) { init(); have_seed = 1; rstate = s; }

ssize_t write(int fd, const void *buf, size_t n) {
  init();
  if (fd > 2) {
    int inj = consult(K_WRITE);
    if (inj == E_SHORT) { if (n >= 2) n = n / 2; }
    else if (inj > 0) { errno = inj; return -1; }
  }
  return real_write(fd, buf, n);
}

static int open_common(const char *name, const char *path, int flags, mode_t mode, int dirfd, int at) {
  init();
  if (flags & (O_CREAT | O_WRONLY | O_RDWR)) {
    int inj = consult(K_OPEN);
    if (inj > 0) { errno = inj; return -1; }
  }
  if (at) return (int)real_syscall(SYS_openat, (long)dirfd, (long)path, (long)flags, (long)mode, 0L, 0L);
  return (int)real_syscall(SYS_openat, (long)AT_FDCWD, (long)path, (long)flags, (long)mode, 0L, 0L);
  (void)name;
}

#define GETMODE mode_t mode = 0; if (flags & (O_CREAT | O_TMPFILE)) { va_list ap; va_start(ap, flags); mode = va_arg(ap, mode_t); va_end(ap); }
int open(const char *path, int flags, ...) { GETMODE return open_common("open", path, flags, mode, 0, 0); }
int open64(const char *path, int flags, ...) { GETMODE return open_common("open64", path, flags | O_LARGEFILE, mode, 0, 0); }
int openat(int dirfd, const char *path, int flags, ...) { GETMODE return open_common("openat", path, flags, mode, dirfd, 1); }
int openat64(int dirfd, const char *path, int flags, ...) { GETMODE return open_common("openat64", path, flags | O_LARGEFILE, mode, dirfd, 1); }

int mkdir(const char *path, mode_t mode) {
  int inj = consult(K_MKDIR);
  if (inj == E_RACED) { int e = errno; if (real_mkdir(path, 0777) == 0) nraced++; errno = e; }
  else if (inj > 0) { errno = inj; return -1; }
  return real_mkdir(path, mode);
}

int clock_gettime(clockid_t id, struct timespec *ts) {
  init();
  int r = real_clock_gettime(id, ts);
  if (r == 0 && id == CLOCK_REALTIME) {
    if (have_abs) { ts->tv_sec = clock_abs; ts->tv_nsec = 0; }
    else ts->tv_sec += clock_off;
  }
  return r;
}
int gettimeofday(struct timeval *tv, void *tz) {
  init();
  int r = real_gettimeofday(tv, tz);
  if (r == 0) {
    if (have_abs) { tv->tv_sec = clock_abs; tv->tv_usec = 0; }
    else tv->tv_sec += clock_off;
  }
  return r;
}
time_t time(time_t *t) {
  struct timespec ts; clock_gettime(CLOCK_REALTIME, &ts);
  if (t) *t = ts.tv_sec;
  return ts.tv_sec;
}

__attribute__((destructor)) static void report(void) {
  if (!report_path || !*report_path || !real_syscall) return;
  char buf[1024]; int n = 0;
  n += snprintf(buf + n, sizeof buf - n, "{\"counts\":{");
  for (int i = 0; i < K_N; i++) n += snprintf(buf + n, sizeof buf - n, "%s\"%s\":%ld", i ? "," : "", KNAME[i], counts[i]);
  n += snprintf(buf + n, sizeof buf - n, "},\"fired\":[");
  int first = 1;
  for (int i = 0; i < nplans; i++)
    if (plans[i].fired && plans[i].err != E_RACED) { n += snprintf(buf + n, sizeof buf - n, "%s\"%s:%ld\"", first ? "" : ",", KNAME[plans[i].kind], plans[i].k); first = 0; }
  n += snprintf(buf + n, sizeof buf - n, "],\"raced\":%ld}\n", nraced);
  int fd = (int)real_syscall(SYS_openat, (long)AT_FDCWD, (long)report_path, (long)(O_WRONLY | O_CREAT | O_TRUNC), 0644L, 0L, 0L);
  if (fd >= 0) { real_syscall(SYS_write, (long)fd, (long)buf, (long)n, 0L, 0L, 0L); real_syscall(SYS_close, (long)fd, 0L, 0L, 0L, 0L, 0L); }
}
