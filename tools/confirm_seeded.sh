#!/bin/bash
# Confirms one sub-agent change independently in a scratch worktree:
#   suite passes with the patch, demo fails with it, demo passes without it.
#   tools/confirm_seeded.sh <worktree> <change-dir> [extra cargo test args for a demo.rs]
# FLAGS for a demo.rs are read from a "FLAGS:" line in notes.md unless given.
WT=$1; OUT=$2; shift 2; EXTRA="$*"
if [ -z "$EXTRA" ] && [ -f $OUT/notes.md ]; then EXTRA=$(grep -m1 -o 'FLAGS: *`\?[^`]*' $OUT/notes.md | sed 's/FLAGS: *`\?//'); fi
export CARGO_TARGET_DIR=$WT/target CARGO_NET_OFFLINE=true
cd $WT || exit 2
git checkout -q -- . ; git clean -fdq -e target
git apply $OUT/patch.diff || { echo "RESULT $OUT patch does not apply"; exit 1; }
if cargo test --workspace --no-fail-fast --offline > $OUT/confirm_suite.log 2>&1; then SUITE=pass; else SUITE=FAIL; fi
run_demo() {
  if [ -f $OUT/demo.sh ]; then bash $OUT/demo.sh $WT > $OUT/confirm_demo_$1.log 2>&1; return $?; fi
  local f=$(ls $OUT/*.rs | head -1); local name=seeded_demo_$$
  cp $f rcgen/tests/$name.rs
  cargo test -p rcgen --test $name --offline $EXTRA > $OUT/confirm_demo_$1.log 2>&1; local rc=$?
  rm -f rcgen/tests/$name.rs; return $rc
}
run_demo with; WITH=$?
git checkout -q -- . ; git clean -fdq -e target
run_demo without; WITHOUT=$?
git checkout -q -- . ; git clean -fdq -e target
echo "RESULT $OUT flags='$EXTRA' suite_with_patch=$SUITE demo_with_patch_rc=$WITH demo_without_patch_rc=$WITHOUT"
