#!/bin/bash
# Runs the property's check against seeded changes:  tools/run_seeded.sh [--tier T] <id>...   (id = C20-1 ...)
TIER=quick; if [ "$1" = "--tier" ]; then TIER=$2; shift 2; fi
for id in "$@"; do
  d=/verif/seeded/$id; prop=${id%%-*}
  if ! git -C /repo diff --quiet; then echo "/repo dirty"; exit 2; fi
  if ! git -C /repo apply "$d/patch.diff" 2>/tmp/apply.err; then
     if ! git -C /repo apply -3 "$d/patch.diff" 2>>/tmp/apply.err; then echo "$id: PATCH DOES NOT APPLY to current /repo: $(head -2 /tmp/apply.err)"; git -C /repo checkout -- .; continue; fi
     git -C /repo reset -q
  fi
  start=$(date +%s)
  (cd /verif && ./check $prop $TIER) > $d/detect-$TIER.log 2>&1; rc=$?
  git -C /repo checkout -- . ; git -C /repo clean -fdq -- rcgen rustls-cert-gen
  n=$(grep -c "^VIOLATION property=$prop " $d/detect-$TIER.log)
  echo "$id: $prop $TIER rc=$rc violations=$n ($(( $(date +%s) - start ))s) $(grep -m1 'violation class' $d/detect-$TIER.log | cut -c1-220)"
done
