#!/bin/bash
# Runs a property's check against seeded changes, each in its own scratch worktree of /repo
# (outside /repo and /verif) through a shadow copy of the simulator workspace (VERIF_REPO).
#   tools/run_seeded.sh [--tier T] [--jobs N] [--prop P] <id>...      (id = C20-1 ...; patch = seeded/<id>/patch.diff
#                                                                       or mutants/<id>.patch)
TIER=quick; JOBS=1; PROP=""
while [[ "${1:-}" == --* ]]; do
  case "$1" in --tier) TIER=$2; shift 2;; --jobs) JOBS=$2; shift 2;; --prop) PROP=$2; shift 2;; *) echo "bad flag"; exit 2;; esac
done
one() {
  id=$1; TIER=$2; PROPO=$3
  if [ -f /verif/seeded/$id/patch.diff ]; then patch=/verif/seeded/$id/patch.diff; logdir=/verif/seeded/$id; else patch=/verif/mutants/$id.patch; logdir=/verif/work/mutant-logs; mkdir -p $logdir; fi
  prop=${PROPO:-${id%%-*}}
  wt=/tmp/sw-$id-$$
  git -C /repo worktree add -q --detach $wt HEAD || { echo "$id: cannot create worktree"; return; }
  if ! git -C $wt apply "$patch" 2>/tmp/apply-$id.err; then
    if ! git -C $wt apply -3 "$patch" 2>>/tmp/apply-$id.err; then echo "$id: PATCH DOES NOT APPLY: $(head -2 /tmp/apply-$id.err)"; git -C /repo worktree remove --force $wt; return; fi
  fi
  start=$(date +%s)
  (cd /verif && VERIF_REPO=$wt ./check $prop $TIER) > $logdir/detect-$prop-$TIER-$id.log 2>&1; rc=$?
  n=$(grep -c "^VIOLATION property=$prop " $logdir/detect-$prop-$TIER-$id.log)
  echo "$id: $prop $TIER rc=$rc violations=$n ($(( $(date +%s) - start ))s) $(grep -m1 'violation class' $logdir/detect-$prop-$TIER-$id.log | cut -c1-240)"
  shadow=$(python3 -c "import hashlib,os;print(hashlib.sha256(os.path.realpath('$wt').encode()).hexdigest()[:10])")
  rm -rf /verif/work/shadow-$shadow
  git -C /repo worktree remove --force $wt
}
export -f one
printf '%s\n' "$@" | xargs -P $JOBS -I{} bash -c "one {} $TIER '$PROP'"
git -C /repo worktree prune
