#!/bin/bash
# Sensitivity: apply one deliberate property-breaking patch to /repo, run the property's
# check, expect exit 1 with a VIOLATION line, then restore /repo.
#   tools/sensitivity.sh [--tests] [--tier quick|thorough] <patch> [<property>]
# The property defaults to the patch file's prefix (C01-..., C15-...).
set -u
TESTS=0; TIER=quick
while [[ "${1:-}" == --* ]]; do
  case "$1" in --tests) TESTS=1; shift;; --tier) TIER=$2; shift 2;; *) echo "bad flag $1"; exit 2;; esac
done
PATCH=$(realpath "$1"); PROP=${2:-$(basename "$PATCH" | cut -d- -f1)}
cd /repo || exit 2
if ! git diff --quiet; then echo "/repo has uncommitted changes; refusing"; exit 2; fi
git apply "$PATCH" || { echo "patch does not apply"; exit 2; }
trap 'git -C /repo checkout -- . ; git -C /repo clean -fdq -- rcgen/src rustls-cert-gen/src' EXIT
if [[ $TESTS == 1 ]]; then
  if cargo test --workspace --no-fail-fast --offline >/tmp/sens-tests.log 2>&1; then echo "  baseline tests: pass (mutant survives the suite)"; else echo "  baseline tests: FAIL (mutant is caught by the suite)"; grep -E "^test .*FAILED|error" /tmp/sens-tests.log | head -5; fi
  rm -f /tmp/sens-tests.log
fi
cd /verif
OUT=$(./check "$PROP" "$TIER" 2>&1); RC=$?
echo "$OUT" | grep -E "VIOLATION|violation class|HARNESS|KNOWN" | head -6
if [[ $RC == 1 ]] && echo "$OUT" | grep -q "^VIOLATION property=$PROP "; then echo "  => $(basename "$PATCH"): DETECTED by $PROP $TIER"; exit 0; fi
echo "  => $(basename "$PATCH"): MISSED by $PROP $TIER (rc=$RC)"; exit 1
