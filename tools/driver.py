"""Driver of the simulation checks: builds the node binaries from /repo's working tree,
fans seeded runs out to worker processes, merges their logs deterministically, minimises
and replays violations in a fresh process, matches known findings, writes evidence."""
import fcntl, hashlib, json, os, re, shutil, subprocess, sys, time

VERIF = os.path.dirname(os.path.dirname(os.path.abspath(__file__)))
REPO = os.path.realpath(os.environ.get("VERIF_REPO", "/repo"))
SIM = os.path.join(VERIF, "sim")
BIN = os.path.join(VERIF, "bin")
WORK = os.path.join(VERIF, "work")
TARGET = os.path.join(VERIF, "target")
SHADOW = None
if REPO != "/repo":
    # Sensitivity runs against a scratch copy of the repository (never registered in MANIFEST):
    # a shadow copy of the simulator workspace whose path dependencies point at that copy, with
    # its own build output, so that it can run next to checks of /repo itself.
    SHADOW = hashlib.sha256(REPO.encode()).hexdigest()[:10]
    _root = os.path.join(WORK, "shadow-" + SHADOW)
    SIM = os.path.join(_root, "sim")
    BIN = os.path.join(_root, "bin")
    TARGET = os.path.join(_root, "target")
    WORK = os.path.join(_root, "work")


def prepare_shadow():
    if not SHADOW:
        return
    root = os.path.dirname(SIM)
    os.makedirs(root, exist_ok=True)
    subprocess.run(["rsync", "-a", "--delete", "--exclude", "target", os.path.join(VERIF, "sim") + "/", SIM + "/"], check=True)
    subprocess.run(["rsync", "-a", "--delete", os.path.join(VERIF, "fixtures") + "/", os.path.join(root, "fixtures") + "/"], check=True)
    for rel in ("simnode/Cargo.toml", "simmiri/Cargo.toml"):
        f = os.path.join(SIM, rel)
        with open(f) as fh:
            t = fh.read()
        with open(f, "w") as fh:
            fh.write(t.replace('path = "/repo/', 'path = "%s/' % REPO))
DEFAULT_SEED = 20261003


def seed():
    try:
        return int(os.environ.get("VERIF_SEED", DEFAULT_SEED))
    except ValueError:
        return DEFAULT_SEED


def workers():
    try:
        return max(1, int(os.environ.get("VERIF_WORKERS", os.cpu_count() or 16)))
    except ValueError:
        return 16


class HarnessError(Exception):
    pass


def log(msg):
    print(msg, flush=True)


def cargo_env(hook=True):
    env = dict(os.environ)
    env["CARGO_NET_OFFLINE"] = "true"
    flags = env.get("VERIF_EXTRA_RUSTFLAGS", "")
    if hook:
        flags = ("--cfg rcgen_verif " + flags).strip()
    env["RUSTFLAGS"] = flags
    env.pop("CARGO_TARGET_DIR", None)
    return env


def feat_tag(features, hook=True):
    t = "-".join(sorted(features)) or "none"
    return t + ("" if hook else "-nohook")


class BuildLock:
    def __init__(self, name):
        os.makedirs(WORK, exist_ok=True)
        self.path = os.path.join(WORK, name + ".lock")

    def __enter__(self):
        self.f = open(self.path, "w")
        fcntl.flock(self.f, fcntl.LOCK_EX)

    def __exit__(self, *a):
        fcntl.flock(self.f, fcntl.LOCK_UN)
        self.f.close()


def build_simnode(features, hook=True, quiet=True, dbg=False):
    """Builds sim/simnode against /repo's working tree with the given rcgen features.
    Returns the path of a private copy of the binary. dbg=True: the same optimised build with
    debug assertions and overflow checks switched on (what `cargo test` / a dev build compiles in)."""
    os.makedirs(BIN, exist_ok=True)
    tag = feat_tag(features, hook) + ("-dbg" if dbg else "")
    tdir = os.path.join(TARGET, ("on" if hook else "off") + ("-dbg" if dbg else ""))
    out = os.path.join(BIN, "simnode-" + tag)
    cmd = ["cargo", "build", "--release", "--offline", "-p", "simnode", "--target-dir", tdir]
    if features:
        cmd += ["--features", ",".join(sorted(features))]
    env = cargo_env(hook)
    if dbg:
        env["RUSTFLAGS"] = (env["RUSTFLAGS"] + " -C debug-assertions=on -C overflow-checks=on").strip()
    with BuildLock("build-" + ("on" if hook else "off") + ("-dbg" if dbg else "")):
        t0 = time.time()
        p = subprocess.run(cmd, cwd=SIM, env=env, stdout=subprocess.PIPE, stderr=subprocess.STDOUT, text=True)
        if p.returncode != 0:
            raise HarnessError("build of simnode[%s] failed:\n%s" % (tag, p.stdout[-6000:]))
        shutil.copy2(os.path.join(tdir, "release", "simnode"), out + ".tmp")
        os.replace(out + ".tmp", out)
        if not quiet:
            log("built simnode[%s] in %.1fs" % (tag, time.time() - t0))
    return out


def build_shim():
    """Compiles shim/detsys.c into bin/detsys.so (the simulated-kernel seam)."""
    os.makedirs(BIN, exist_ok=True)
    out = os.path.join(BIN, "detsys.so")
    src = os.path.join(VERIF, "shim", "detsys.c")
    with BuildLock("build-shim"):
        if os.path.exists(out) and os.path.getmtime(out) >= os.path.getmtime(src):
            return out
        p = subprocess.run(["clang", "-O2", "-shared", "-fPIC", "-o", out + ".tmp", src, "-ldl"],
                           stdout=subprocess.PIPE, stderr=subprocess.STDOUT, text=True)
        if p.returncode != 0:
            raise HarnessError("building detsys.so failed:\n" + p.stdout)
        os.replace(out + ".tmp", out)
    return out


def build_tool(pkg):
    """Builds a harness-only binary of the sim workspace (no rcgen inside): clisim."""
    os.makedirs(BIN, exist_ok=True)
    tdir = os.path.join(TARGET, "on")
    out = os.path.join(BIN, pkg)
    with BuildLock("build-on"):
        p = subprocess.run(["cargo", "build", "--release", "--offline", "-p", pkg, "--target-dir", tdir], cwd=SIM, env=cargo_env(True),
                           stdout=subprocess.PIPE, stderr=subprocess.STDOUT, text=True)
        if p.returncode != 0:
            raise HarnessError("build of %s failed:\n%s" % (pkg, p.stdout[-6000:]))
        shutil.copy2(os.path.join(tdir, "release", pkg), out + ".tmp")
        os.replace(out + ".tmp", out)
    return out


def build_cli(backend):
    """Builds the real rustls-cert-gen binary from /repo's working tree for one back end
    (guard off: the shipped behaviour). Returns (path or None, build log tail)."""
    os.makedirs(BIN, exist_ok=True)
    tdir = os.path.join(TARGET, "cli-" + backend)
    out = os.path.join(BIN, "rustls-cert-gen-" + backend)
    cmd = ["cargo", "build", "--release", "--offline", "-p", "rustls-cert-gen", "--target-dir", tdir]
    if backend != "ring":
        cmd += ["--no-default-features", "--features", backend]
    with BuildLock("build-cli-" + backend):
        p = subprocess.run(cmd, cwd=REPO, env=cargo_env(False), stdout=subprocess.PIPE, stderr=subprocess.STDOUT, text=True)
        if p.returncode != 0:
            return None, p.stdout[-4000:]
        shutil.copy2(os.path.join(tdir, "release", "rustls-cert-gen"), out + ".tmp")
        os.replace(out + ".tmp", out)
    return out, ""


class Batch:
    """Merged result of one fan-out of seeded runs."""

    def __init__(self):
        self.runs = []  # (i, run_seed, trace_hash, log_hash, nontrivial)
        self.counters = {}
        self.cover = {}
        self.samples = []
        self.violations = []  # dicts with i, s, class, detail, trace
        self.wall = 0.0
        self.cpu = 0.0

    def add_summary(self, s):
        for k, v in s.get("counters", {}).items():
            self.counters[k] = self.counters.get(k, 0) + v
        for k, v in s.get("cover", {}).items():
            self.cover.setdefault(k, set()).update(v)
        self.samples += s.get("samples", [])
        self.cpu += s.get("wall_s", 0.0)

    def log_digest(self):
        h = hashlib.sha256()
        for r in sorted(self.runs):
            h.update(("%d %s %s %s %d\n" % r).encode())
        return h.hexdigest()

    def distinct_nontrivial(self):
        return len({r[2] for r in self.runs if r[4]})


def run_batch(binary, engine, mode, tier, n_runs, vseed=None, nworkers=None, first=0, extra_args=(), env_extra=None):
    vseed = seed() if vseed is None else vseed
    nworkers = workers() if nworkers is None else nworkers
    nworkers = max(1, min(nworkers, n_runs))
    os.makedirs(WORK, exist_ok=True)
    procs = []
    t0 = time.time()
    env = dict(os.environ)
    if env_extra:
        env.update(env_extra)
    for w in range(nworkers):
        cmd = [binary, engine, "run", "--seed", str(vseed), "--from", str(first), "--to", str(first + n_runs),
               "--stride", str(nworkers), "--offset", str((first + w) % nworkers), "--tier", tier, "--mode", mode,
               "--keep-going"] + list(extra_args)
        procs.append(subprocess.Popen(cmd, stdout=subprocess.PIPE, stderr=subprocess.PIPE, text=True, env=env))
    b = Batch()
    for w, p in enumerate(procs):
        out, err = p.communicate()
        if p.returncode != 0:
            raise HarnessError("worker %d of %s/%s exited %d: %s" % (w, engine, mode, p.returncode, err[-2000:]))
        got_summary = False
        for line in out.splitlines():
            if not line.strip():
                continue
            d = json.loads(line)
            if "summary" in d:
                b.add_summary(d["summary"])
                got_summary = True
                continue
            b.runs.append((d["i"], d["s"], d["t"], d["l"], d["n"]))
            if "v" in d:
                v = d["v"]
                b.violations.append({"i": d["i"], "s": d["s"], "class": v["class"], "detail": v["detail"], "trace": v["trace"]})
        if not got_summary:
            raise HarnessError("worker %d of %s/%s produced no summary: %s" % (w, engine, mode, err[-2000:]))
    b.runs.sort()
    b.violations.sort(key=lambda v: v["i"])
    b.samples = b.samples[:3]
    b.wall = time.time() - t0
    return b


# ---------------------------------------------------------------- known findings ---------

def load_known():
    p = os.path.join(VERIF, "known_findings.json")
    if not os.path.exists(p):
        return []
    with open(p) as f:
        return json.load(f).get("findings", [])


def match_known(prop, vclass, detail, trace):
    """Returns the 'known' entry this violation matches, if any. 'fixed' entries suppress nothing."""
    blob = json.dumps(trace, sort_keys=True)
    for k in load_known():
        if k.get("status") != "known" or k.get("property") != prop:
            continue
        if k.get("class") and k["class"] != vclass:
            continue
        if k.get("detail_regex") and not re.search(k["detail_regex"], detail):
            continue
        if k.get("trace_regex") and not re.search(k["trace_regex"], blob):
            continue
        return k
    return None


KNOWN_SEEN = {}


def note_known(prop, k, n, rel):
    """One KNOWN-FINDING line per listed finding and check; occurrences are counted for the evidence."""
    key = k.get("id") or k.get("what", "")[:60]
    if key not in KNOWN_SEEN:
        log("KNOWN-FINDING: property=%s %s (replay=%s)" % (prop, k.get("what", k.get("class", "")), rel))
        KNOWN_SEEN[key] = {"occurrences_in_this_run": 0, "example_replay": rel}
    KNOWN_SEEN[key]["occurrences_in_this_run"] += n


# ---------------------------------------------------------------- violations -------------

def handle_violations(prop, binary, build_desc, engine, mode, batch, vseed, env_extra=None):
    """Minimises, writes replay files, confirms each in a fresh process.
    Returns (n_unlisted_violations, n_known)."""
    os.makedirs(os.path.join(VERIF, "replays"), exist_ok=True)
    os.makedirs(WORK, exist_ok=True)
    seen_classes = {}
    for v in batch.violations:
        seen_classes.setdefault(v["class"], v)
    unlisted = 0
    known = 0
    for vclass, v in list(seen_classes.items())[:6]:
        if vclass == "harness-panic":
            raise HarnessError("engine %s panicked outside its guards: %s" % (engine, v["detail"]))
        k = match_known(prop, vclass, v["detail"], v["trace"])
        if k:
            # a listed finding: kept as found (no minimisation), still confirmed in a fresh process
            tagname = feat_tag(build_desc.get("features", []), build_desc.get("hook", True)) + ("-shim" if build_desc.get("shim") else "") + ("-dbg" if build_desc.get("dbg") else "")
            rel = os.path.join("replays", "known-%s-%s-%s-%s.json" % (prop, tagname, mode, v["s"]))
            path = os.path.join(VERIF, rel)
            with open(path, "w") as f:
                json.dump({"property": prop, "engine": engine, "mode": mode, "build": build_desc, "verif_seed": vseed,
                           "run_index": v["i"], "run_seed": v["s"], "violation": {"class": vclass, "detail": v["detail"]},
                           "minimised": None, "known_finding": k.get("id"), "trace": v["trace"]}, f, indent=1)
            env = dict(os.environ)
            if env_extra:
                env.update(env_extra)
            ok, got = confirm_replay(binary, engine, path, vclass, env)
            if not ok:
                raise HarnessError("listed finding %s of %s (run %d) does not reproduce in a fresh process (got %s)" % (vclass, prop, v["i"], got))
            n = sum(1 for x in batch.violations if x["class"] == vclass)
            note_known(prop, k, n, rel)
            known += 1
            continue
        raw = os.path.join(WORK, "viol-%s-%s.json" % (prop, v["s"]))
        with open(raw, "w") as f:
            json.dump({"trace": v["trace"]}, f)
        mini = os.path.join(WORK, "mini-%s-%s.json" % (prop, v["s"]))
        env = dict(os.environ)
        if env_extra:
            env.update(env_extra)
        if vclass == "process-hung":
            # every candidate of a hanging trace costs a full watchdog period: reported as found
            p = None
        else:
            p = subprocess.run([binary, engine, "minimize", "--trace", raw, "--out", mini, "--budget", "30"],
                               stdout=subprocess.PIPE, stderr=subprocess.PIPE, text=True, env=env)
        if p is not None and p.returncode == 0 and os.path.exists(mini):
            with open(mini) as f:
                m = json.load(f)
        else:
            m = {"violation": {"class": vclass, "detail": v["detail"]}, "trace": v["trace"], "minimised": None}
        replay = {
            "property": prop, "engine": engine, "mode": mode, "build": build_desc,
            "verif_seed": vseed, "run_index": v["i"], "run_seed": v["s"],
            "violation": m["violation"], "minimised": m.get("minimised"),
            "original_violation": {"class": vclass, "detail": v["detail"]},
            "trace": m["trace"],
        }
        tagname = feat_tag(build_desc.get("features", []), build_desc.get("hook", True)) + ("-shim" if build_desc.get("shim") else "") + ("-dbg" if build_desc.get("dbg") else "")
        rel = os.path.join("replays", "%s-%s-%s-%s.json" % (prop, tagname, mode, v["s"]))
        path = os.path.join(VERIF, rel)
        with open(path, "w") as f:
            json.dump(replay, f, indent=1)
        # fresh-process confirmation
        ok, got = confirm_replay(binary, engine, path, m["violation"]["class"], env)
        if not ok:
            # fall back to the unminimised trace
            replay["trace"] = v["trace"]
            replay["violation"] = {"class": vclass, "detail": v["detail"]}
            replay["minimised"] = None
            with open(path, "w") as f:
                json.dump(replay, f, indent=1)
            ok, got = confirm_replay(binary, engine, path, vclass, env)
            if not ok:
                raise HarnessError("violation %s of %s (run %d) does not reproduce in a fresh process (got %s); "
                                   "simulator nondeterminism" % (vclass, prop, v["i"], got))
        k = match_known(prop, replay["violation"]["class"], replay["violation"]["detail"], replay["trace"])
        if k:
            note_known(prop, k, 1, rel)
            known += 1
        else:
            log("  violation class=%s run=%d: %s" % (replay["violation"]["class"], v["i"], replay["violation"]["detail"][:400]))
            log("VIOLATION property=%s replay=%s" % (prop, rel))
            unlisted += 1
    return unlisted, known


def confirm_replay(binary, engine, path, want_class, env=None, attempts=5):
    """Replays in a fresh process. One attempt suffices when every source of nondeterminism is
    behind a seam; further attempts only matter when the code under test itself has grown an
    uncontrolled one (real threads of its own, for instance)."""
    v = None
    for k in range(attempts):
        p = subprocess.run([binary, engine, "exec", "--trace", path], stdout=subprocess.PIPE, stderr=subprocess.PIPE, text=True, env=env)
        try:
            d = json.loads(p.stdout.strip().splitlines()[-1])
        except Exception:
            return False, "unparsable output: %s %s" % (p.stdout[-300:], p.stderr[-300:])
        v = d.get("violation")
        if p.returncode == 1 and v and v.get("class") == want_class:
            if k > 0:
                log("  (replay reproduced on attempt %d of %d: the code under test is not deterministic under a fixed trace)" % (k + 1, attempts))
            return True, v
    return False, v


# ---------------------------------------------------------------- evidence ---------------

def write_evidence(prop, tier, level, coverage, assumptions, wall, violations):
    if SHADOW:
        return  # runs against a scratch copy are not evidence
    coverage.setdefault("simulated_runs_per_hour", int(coverage.get("evaluations", 0) / max(wall, 1e-6) * 3600))
    if KNOWN_SEEN:
        coverage["known_findings_met_in_this_run(listed in known_findings.json; not counted as violations)"] = KNOWN_SEEN
    coverage.setdefault("seeds_per_hour", "one VERIF_SEED per invocation; run seeds (one per simulated run) per hour = simulated_runs_per_hour")
    os.makedirs(os.path.join(VERIF, "evidence"), exist_ok=True)
    doc = {
        "property_id": prop, "tier": tier, "seed": seed(), "level": level,
        "coverage": coverage, "assumptions": assumptions, "wall_s": round(wall, 3), "violations": violations,
    }
    path = os.path.join(VERIF, "evidence", prop + ".json")
    with open(path + ".tmp", "w") as f:
        json.dump(doc, f, indent=1, sort_keys=True)
    os.replace(path + ".tmp", path)


def batch_cov(label, b):
    return {
        "label": label, "runs": len(b.runs), "distinct_traces": len({r[2] for r in b.runs}),
        "distinct_nontrivial": b.distinct_nontrivial(), "counters": dict(sorted(b.counters.items())),
        "cover_sizes": {k: len(v) for k, v in sorted(b.cover.items())},
        "wall_s": round(b.wall, 2), "runs_per_hour": int(len(b.runs) / max(b.wall, 1e-6) * 3600),
        "event_log_digest": b.log_digest(),
    }


# ---------------------------------------------------------------- properties -------------

MAIN_FEATURES = ["ring", "pem", "x509-parser"]


def check_c20(tier):
    t0 = time.time()
    binary = build_simnode(MAIN_FEATURES, hook=True)
    build_desc = {"features": MAIN_FEATURES, "hook": True}
    n_small, n_wide = (40000, 30000) if tier == "quick" else (400000, 600000)
    vseed = seed()
    total_viol = 0
    covs = []
    samples = []
    evaluations = 0
    dn = 0
    n_long = 48 if tier == "quick" else 640
    dbg_binary = build_simnode(MAIN_FEATURES, hook=True, dbg=True)
    dbg_desc = {"features": MAIN_FEATURES, "hook": True, "dbg": True}
    batches = [("small", n_small, binary, build_desc), ("wide", n_wide, binary, build_desc), ("long", n_long, binary, build_desc),
               ("small+debug-assertions", n_small // 5, dbg_binary, dbg_desc), ("wide+debug-assertions", n_wide // 5, dbg_binary, dbg_desc)]
    for label, n, binary, build_desc in batches:
        mode = label.split("+")[0]
        shim_env = {"LD_PRELOAD": build_shim(), "DETSYS_RAND_SEED": str(vseed)}
        build_desc = dict(build_desc, shim=True)
        b = run_batch(binary, "dn-sim", mode, tier, n, vseed, env_extra=shim_env)
        evaluations += len(b.runs)
        dn += b.distinct_nontrivial()
        covs.append((label, b))
        samples += [{"mode": label, "trace": s} for s in b.samples[:1]]
        if b.violations:
            u, _k = handle_violations("C20", binary, build_desc, "dn-sim", mode, b, vseed, env_extra=shim_env)
            total_viol += u
    small = covs[0][1]
    le4 = len(small.cover.get("dn_small_hist_le4", ()))
    coverage = {
        "evaluations": evaluations,
        "distinct_nontrivial": dn,
        "rule": "one evaluation = one seeded edit history executed against the reference model with every invariant checked after "
                "every operation; a history is non-trivial when it re-pushes a type after removing it (the case where the two "
                "internal structures can diverge); distinct = distinct explicit-trace hashes among those",
        "samples": samples,
        "batches": [batch_cov(m, b) for m, b in covs],
        "small_alphabet_histories_len_le4_reached": le4,
        "small_alphabet_histories_len_le4_total": 9 + 81 + 729 + 6561,
        "small_alphabet_note": "9 operations (3 types x 2 values pushes, 3 removes); the first four operations of a small-mode "
                               "run are stratified by run index, later ones and everything else are seeded; reach is measured, not assumed",
        "simulated_time": "rcgen has no clock; logical steps = %d" % sum(b.counters.get("steps", 0) + 2 * b.counters.get("churn_rounds", 0) for _, b in covs),
        "long_histories": {"runs": n_long, "push_remove_rounds_on_one_name_object": sum(b.counters.get("churn_rounds", 0) for _, b in covs),
                           "note": "each long run performs 70,000-140,000 first-insertions on a single name object, checked after every step"},
        "near_twin_comparisons(names differing in one letter's case / string kind / trailing space / custom type with the same OID)": sum(b.counters.get("near_twins", 0) for _, b in covs),
        "fault_kinds": {"hash_seed_per_run": evaluations},
        "real_components": ["rcgen (DistinguishedName, certificate/CSR/CRL writers)", "yasna", "time"],
        "simulated_components": ["hash state of the attribute map (hook H1)", "signer (fixed-bytes stub; signature irrelevant here)"],
        "exhaustive": False,
    }
    assumptions = [
        "the reference model (Vec of pairs: replace in place or append; remove deletes) is the specification",
        "the TLV reader and the OID / string-tag table in the harness are correct",
        "hook H1 only replaces the hash builder of the attribute map",
    ]
    write_evidence("C20", tier, "exploration", coverage, assumptions, time.time() - t0, total_viol)
    return 1 if total_viol else 0


def run_plan(prop, plan, tier, vseed):
    """plan: list of dicts {label, features, engine, mode, runs, shim}. Returns (batches, unlisted)."""
    results = []
    unlisted = 0
    for item in plan:
        binary = item.get("binary") or build_simnode(item["features"], hook=True, dbg=bool(item.get("dbg")))
        env = dict(item.get("env") or {}) or None
        if item["engine"] != "cli-sim" and env is None:
            # every simulated run sits on the system-call seam: the getrandom stream is restarted
            # from the run seed in each run's child, so that std's per-thread hash-map keys (the one
            # source of randomness inside std collections) are a function of the run seed as well
            env = {"LD_PRELOAD": build_shim(), "DETSYS_RAND_SEED": str(vseed)}
        b = run_batch(binary, item["engine"], item["mode"], tier, item["runs"], vseed, env_extra=env)
        results.append((item, b))
        if b.violations:
            desc = {"features": item["features"], "hook": True, "shim": item["engine"] != "cli-sim", "dbg": bool(item.get("dbg"))}
            if item.get("backend"):
                desc["cli_backend"] = item["backend"]
            u, _k = handle_violations(prop, binary, desc, item["engine"], item["mode"], b, vseed, env_extra=env)
            unlisted += u
    return results, unlisted


def sum_counter(results, key):
    return sum(b.counters.get(key, 0) for _, b in results)


def check_c01(tier):
    t0 = time.time()
    vseed = seed()
    q = tier == "quick"
    R = ["ring", "pem", "x509-parser"]
    A = ["aws_lc_rs", "pem", "x509-parser"]
    N = ["pem", "x509-parser"]
    plan = [
        {"label": "ring/plain", "features": R, "engine": "sign-sim", "mode": "plain", "runs": 2400 if q else 40000},
        {"label": "ring/faults", "features": R, "engine": "sign-sim", "mode": "faults", "runs": 2400 if q else 40000},
        {"label": "ring/enum", "features": R, "engine": "sign-sim", "mode": "enum", "runs": 480 if q else 12000},
        {"label": "ring+shim/rng", "features": R, "engine": "sign-sim", "mode": "rng", "runs": 1600 if q else 30000, "shim": True},
        {"label": "ring+shim/enum-rng", "features": R, "engine": "sign-sim", "mode": "enum-rng", "runs": 320 if q else 8000, "shim": True},
        {"label": "aws_lc_rs/plain", "features": A, "engine": "sign-sim", "mode": "plain", "runs": 1600 if q else 30000},
        {"label": "aws_lc_rs/faults", "features": A, "engine": "sign-sim", "mode": "faults", "runs": 1600 if q else 30000},
        {"label": "aws_lc_rs/enum", "features": A, "engine": "sign-sim", "mode": "enum", "runs": 320 if q else 8000},
        {"label": "no-crypto/faults", "features": N, "engine": "sign-sim", "mode": "faults", "runs": 1600 if q else 30000},
        {"label": "no-crypto/enum-remote", "features": N, "engine": "sign-sim", "mode": "enum-remote", "runs": 320 if q else 8000},
        {"label": "ring+zeroize/plain", "features": R + ["zeroize"], "engine": "sign-sim", "mode": "plain", "runs": 640 if q else 10000},
        {"label": "aws_lc_rs+zeroize/faults", "features": A + ["zeroize"], "engine": "sign-sim", "mode": "faults", "runs": 480 if q else 8000},
        {"label": "ring+debug-assertions/plain", "features": R, "engine": "sign-sim", "mode": "plain", "runs": 480 if q else 8000, "dbg": True},
        {"label": "ring+debug-assertions/faults", "features": R, "engine": "sign-sim", "mode": "faults", "runs": 480 if q else 8000, "dbg": True},
    ]
    results, unlisted = run_plan("C01", plan, tier, vseed)
    evaluations = sum(len(b.runs) for _, b in results)
    dn = sum(b.distinct_nontrivial() for _, b in results)
    samples = []
    for item, b in results:
        if b.samples and len(samples) < 3:
            samples.append({"batch": item["label"], "trace": b.samples[0]})
    fault_kinds = {
        "remote_signer_returns_Err": sum_counter(results, "signer_faults_fired_err"),
        "remote_signer_returns_opaque_bytes": sum_counter(results, "signer_faults_fired_opaque"),
        "getrandom_fault_fired_during_local_signing": sum_counter(results, "rng_faults_fired"),
        "getrandom_EINTR": sum_counter(results, "rng_fault_kind_0"),
        "getrandom_short_read": sum_counter(results, "rng_fault_kind_1"),
        "getrandom_EIO": sum_counter(results, "rng_fault_kind_2"),
        "getrandom_EPERM": sum_counter(results, "rng_fault_kind_3"),
        "enumerated_signer_fail_points": sum_counter(results, "enum_signer_points"),
        "enumerated_getrandom_fail_points": sum_counter(results, "enum_rng_points"),
    }
    algs = {}
    for _, b in results:
        for k, v in b.counters.items():
            if k.startswith("alg_"):
                algs[k[4:]] = algs.get(k[4:], 0) + v
    coverage = {
        "evaluations": evaluations,
        "distinct_nontrivial": dn,
        "rule": "one evaluation = one seeded issuance history (2-4 key slots in local or remote custody, 3-10 operations: self-sign, "
                "issue, CSR, issue-from-CSR, CRL) executed under one fault plan, or — in the enum modes — the fault-free execution "
                "plus one re-execution per signer call / getrandom call with exactly that call failing; non-trivial = at least one "
                "injected fault actually fired, or (fault-free batches) at least one remote signature checked byte-for-byte and "
                ">= 3 artefacts verified; distinct = distinct explicit-trace hashes among those",
        "samples": samples,
        "batches": [batch_cov(i["label"], b) for i, b in results],
        "fault_kinds_fired": fault_kinds,
        "artefacts_checked": sum_counter(results, "artefacts_checked"),
        "registry_lookups_of_neighbouring_OIDs(from_oid; accepted ones are signed with and judged by OpenSSL)": sum_counter(results, "oid_probe_lookups"),
        "neighbouring_OIDs_accepted_outside_the_table": sum_counter(results, "oid_probe_accepted_outside_table"),
        "artefacts_by_kind": {k: sum_counter(results, "artefact_" + k) for k in ("cert", "csr", "crl")},
        "signatures_verified_by_openssl": sum_counter(results, "openssl_verified"),
        "remote_exact_bytes_checked": sum_counter(results, "remote_exact_bytes_checked"),
        "opaque_embeddings_checked": sum_counter(results, "opaque_embeddings_checked"),
        "signing_algorithm_x_custody": dict(sorted(algs.items())),
        "tbs_length_forms_reached": sorted(set().union(*[b.cover.get("tbs_len_form", set()) for _, b in results])),
        "operations": sum_counter(results, "ops"),
        "scenarios_executed": sum_counter(results, "scenarios"),
        "errors_without_fault(expected refusals: CRL dates, issuer usage, CSR-unsupported fields)": sum_counter(results, "err_without_fault"),
        "panics_without_fault(not judged: C10)": sum_counter(results, "panic_without_fault"),
        "simulated_time": "rcgen has no clock; logical steps = operations",
        "real_components": ["rcgen", "yasna", "time", "pem", "x509-parser", "ring / aws-lc-rs (per batch)"],
        "simulated_components": ["remote signer (real OpenSSL crypto inside, simulated failure behaviour)",
                                 "getrandom on ring builds (detsys.so, seeded stream + fail points)",
                                 "hash state of name maps (hook H1)"],
        "exhaustive": False,
        "exhaustive_note": "per sampled scenario every signer call and every getrandom call of the fault-free execution is failed once (enum batches); scenarios themselves are sampled",
    }
    assumptions = [
        "OpenSSL 3.0 is the independent verifier and the remote signer's crypto",
        "the harness TLV reader and the hand-written AlgorithmIdentifier table are correct",
        "aws-lc-rs randomness cannot be seamed; no RNG faults are injected there",
        "for local keys the bytes handed to the signing primitive are observed only cryptographically",
    ]
    write_evidence("C01", tier, "fault_enumeration", coverage, assumptions, time.time() - t0, unlisted)
    return 1 if unlisted else 0


def replica_conditions(vseed):
    """Ambient conditions a pure function must ignore (L4). Each: label, hook, workers, env."""
    shim = build_shim()
    return [
        {"label": "hook-on/16w/baseline", "hook": True, "workers": 16, "env": {}},
        {"label": "hook-on/3w/clock-30y/TZ=Asia/Kolkata/tr_TR/cwd=/", "hook": True, "workers": 3, "cwd": "/",
         "env": {"LD_PRELOAD": shim, "DETSYS_CLOCK_OFFSET": str(-30 * 365 * 86400), "TZ": "Asia/Kolkata", "LANG": "tr_TR.UTF-8", "LC_ALL": "tr_TR.UTF-8"}},
        {"label": "hook-off(RandomState)/5w/clock+20y", "hook": False, "workers": 5,
         "env": {"LD_PRELOAD": shim, "DETSYS_CLOCK_OFFSET": str(20 * 365 * 86400), "TZ": "Pacific/Chatham"}},
        {"label": "hook-off(RandomState)/16w/second-process-set", "hook": False, "workers": 16, "env": {"RUST_BACKTRACE": "1", "HOME": "/nonexistent"}},
    ]


def run_batch_cond(features, cond, engine, mode, tier, n, vseed):
    binary = build_simnode(features, hook=cond["hook"])
    cwd = cond.get("cwd")
    old = os.getcwd()
    try:
        if cwd:
            os.chdir(cwd)
        return binary, run_batch(binary, engine, mode, tier, n, vseed, nworkers=cond["workers"], env_extra=cond["env"])
    finally:
        os.chdir(old)


def check_replicas(prop, features, tier, n, vseed):
    """Runs the same seeded histories under every ambient condition; all per-run logs must agree.
    Returns (info dict, unlisted violations)."""
    conds = replica_conditions(vseed)
    base = None
    info = []
    unlisted = 0
    for c in conds:
        binary, b = run_batch_cond(features, c, "purity-hist", "default", tier, n, vseed)
        info.append({"condition": c["label"], "runs": len(b.runs), "event_log_digest": b.log_digest(), "wall_s": round(b.wall, 2)})
        if b.violations:
            # in-run violations are the L1 oracle's business and are reported by the L1 batch
            pass
        if base is None:
            base = (c, b)
            continue
        if b.log_digest() != base[1].log_digest():
            a = {r[0]: r for r in base[1].runs}
            for r in b.runs:
                if a.get(r[0]) != r:
                    idx = r[0]
                    break
            else:
                idx = -1
            os.makedirs(os.path.join(VERIF, "replays"), exist_ok=True)
            rel = os.path.join("replays", "%s-replica-%s-%d.json" % (prop, feat_tag(features), idx))
            with open(os.path.join(VERIF, rel), "w") as f:
                json.dump({"property": prop, "kind": "replica-divergence", "engine": "purity-hist", "mode": "default", "tier": tier,
                           "features": features, "verif_seed": vseed, "run_index": idx,
                           "conditions": [base[0]["label"], c["label"]],
                           "violation": {"class": "c15-replica-divergence",
                                         "detail": "run %d: per-run event log differs between '%s' and '%s'" % (idx, base[0]["label"], c["label"])}}, f, indent=1)
            # confirm: rerun that single index under both conditions in fresh processes
            if replay_replica(os.path.join(VERIF, rel), quiet=True) != 1:
                raise HarnessError("replica divergence at run %d did not reproduce" % idx)
            k = match_known(prop, "c15-replica-divergence", "", {"run_index": idx})
            if k:
                log("KNOWN-FINDING: property=%s %s" % (prop, k.get("what", "")))
            else:
                log("  violation class=c15-replica-divergence run=%d between '%s' and '%s'" % (idx, base[0]["label"], c["label"]))
                log("VIOLATION property=%s replay=%s" % (prop, rel))
                unlisted += 1
            break
    return info, unlisted


def replay_replica(path, quiet=False):
    with open(path) as f:
        r = json.load(f)
    conds = {c["label"]: c for c in replica_conditions(r["verif_seed"])}
    hashes = []
    for label in r["conditions"]:
        c = conds[label]
        _bin, b = run_batch_cond(r["features"], dict(c, workers=1), r["engine"], r["mode"], r.get("tier", "quick"), 1, r["verif_seed"]) \
            if False else (None, None)
        binary = build_simnode(r["features"], hook=c["hook"])
        env = dict(os.environ)
        env.update(c["env"])
        p = subprocess.run([binary, r["engine"], "run", "--seed", str(r["verif_seed"]), "--from", str(r["run_index"]),
                            "--to", str(r["run_index"] + 1), "--tier", r.get("tier", "quick"), "--mode", r["mode"], "--keep-going"],
                           stdout=subprocess.PIPE, stderr=subprocess.PIPE, text=True, env=env, cwd=c.get("cwd"))
        line = json.loads(p.stdout.splitlines()[0])
        hashes.append((line["t"], line["l"]))
        if not quiet:
            log("  %s: trace %s log %s" % (label, line["t"], line["l"]))
    if hashes[0] != hashes[1]:
        if not quiet:
            log("VIOLATION property=%s replay=%s" % (r["property"], path))
        return 1
    if not quiet:
        log("replay: replicas agree on this tree")
    return 0


def check_c15(tier):
    t0 = time.time()
    vseed = seed()
    q = tier == "quick"
    R = ["ring", "pem", "x509-parser"]
    A = ["aws_lc_rs", "pem", "x509-parser"]
    N = ["pem", "x509-parser"]
    plan = [
        {"label": "L1 ring/histories", "features": R, "engine": "purity-hist", "mode": "default", "runs": 2400 if q else 60000},
        {"label": "L1 aws_lc_rs/histories", "features": A, "engine": "purity-hist", "mode": "default", "runs": 1200 if q else 30000},
        {"label": "L1 no-crypto/histories", "features": N, "engine": "purity-hist", "mode": "default", "runs": 1200 if q else 30000},
        {"label": "L2 ring/shuttle", "features": R + ["shuttle"], "engine": "purity-shuttle", "mode": "default", "runs": 480 if q else 8000},
        {"label": "L2 no-crypto/shuttle", "features": N + ["shuttle"], "engine": "purity-shuttle", "mode": "default", "runs": 320 if q else 6000},
        {"label": "L1 ring+debug-assertions/histories", "features": R, "engine": "purity-hist", "mode": "default", "runs": 480 if q else 8000, "dbg": True},
        {"label": "L1 aws_lc_rs+zeroize/histories", "features": A + ["zeroize"], "engine": "purity-hist", "mode": "default", "runs": 320 if q else 6000},
        # the workspace's second generation path: the rustls_cert_gen library, one shared Ca object
        {"label": "L1 ring/rustls_cert_gen library histories", "features": R + ["clilib-ring"], "engine": "purity-lib", "mode": "default", "runs": 480 if q else 8000},
    ]
    results, unlisted = run_plan("C15", plan, tier, vseed)
    rep_info, u = check_replicas("C15", R, tier, 480 if q else 6000, vseed)
    unlisted += u
    miri_info, u = check_miri("C15", tier, vseed)
    unlisted += u
    evaluations = sum(len(b.runs) for _, b in results) + sum(i["runs"] for i in rep_info[1:]) + miri_info.get("schedules", 0)
    dn = sum(b.distinct_nontrivial() for _, b in results)
    samples = []
    for item, b in results:
        if b.samples and len(samples) < 3:
            samples.append({"batch": item["label"], "trace": b.samples[0]})
    inter = set()
    for item, b in results:
        inter |= b.cover.get("interleavings_at_signer_seam", set())
    coverage = {
        "evaluations": evaluations,
        "distinct_nontrivial": dn,
        "rule": "L1: one evaluation = one seeded call history (observed calls repeated >= 3 times among 8-40 noise steps on the same "
                "keys and issuers, parameters rebuilt from the recipe each time, fresh seeded hash states); non-trivial = >= 2 repeated "
                "observations compared. L2: one evaluation = one scenario of 2-4 shuttle threads x 12-40 seeded schedules; non-trivial "
                "always (>= 2 threads). L4: the same histories re-run in fresh processes under other ambient conditions. L3: one "
                "evaluation = one Miri schedule seed. distinct = distinct explicit-trace hashes",
        "samples": samples,
        "batches": [batch_cov(i["label"], b) for i, b in results],
        "L2_schedules": sum_counter(results, "schedules"),
        "L2_distinct_interleavings_at_signer_seam(order of (thread, key, enter/exit) events, hashed)": len(inter),
        "L2_concurrent_signer_calls": sum_counter(results, "concurrent_signer_calls"),
        "L1_repeated_observations_compared": sum_counter(results, "repeated_observations_compared"),
        "L1_params_equality_checked": sum_counter(results, "params_equality_checked"),
        "L1_noise_steps": sum_counter(results, "noise_steps"),
        "L1_pristine_references_computed_in_fresh_processes": sum_counter(results, "pristine_references"),
        "L1_observations_compared_with_pristine_reference": sum_counter(results, "compared_with_pristine"),
        "L1_twin_observations(equal parameters, other object history)": sum_counter(results, "twin_observations"),
        "L1_rustls_cert_gen_library_histories(one shared Ca, subject keys repeated through the getrandom seam)": sum_counter(results, "lib_histories"),
        "L1_observations_nested_in_a_signer_callback": sum_counter(results, "observations_nested_in_a_signer_callback"),
        "L1_floods_of_1100_to_4200_other_issuers": sum_counter(results, "noise_flood-of-issuers"),
        "L4_replicas": rep_info,
        "L3_miri": miri_info,
        "fault_kinds_fired": {"signer_Err_during_noise_generation": sum_counter(results, "noise_failing-gen"),
                              "hash_seed_per_name_instance": "every DistinguishedName built in a hook-on run",
                              "clock_skew_replicas": 2, "RandomState_replicas": 2},
        "simulated_time": "rcgen has no clock; logical steps = history steps + schedules",
        "real_components": ["rcgen", "yasna", "time", "pem", "x509-parser", "ring / aws-lc-rs (per batch)"],
        "simulated_components": ["thread scheduler (shuttle: random and PCT; Miri for the crypto-less build)",
                                 "remote signer (OpenSSL inside; pure-Rust stub under Miri)", "hash state of name maps (hook H1)",
                                 "wall clock, TZ, locale, cwd of replica processes (detsys.so)"],
        "exhaustive": False,
    }
    assumptions = [
        "shuttle can switch threads only at the signer seam and between operations (rcgen has no synchronisation primitive); "
        "instruction-level interleavings are covered only by the Miri layer on the crypto-less build",
        "interleavings inside ring / aws-lc-rs are out of reach",
        "deterministic signature schemes: Ed25519 and RSA PKCS#1 v1.5 (OpenSSL as honest remote signer is deterministic for both)",
    ]
    write_evidence("C15", tier, "exploration", coverage, assumptions, time.time() - t0, unlisted)
    return 1 if unlisted else 0


MIRI_DIR = os.path.join(SIM, "simmiri")


def miri_cmd(flags, scenario, threads, extra_features=()):
    # a pseudo-feature "keys=rsa" selects the key kind of the scenario (argv), not a cargo feature
    keys = [f.split("=", 1)[1] for f in extra_features if f.startswith("keys=")]
    extra_features = tuple(f for f in extra_features if not f.startswith("keys="))
    env = cargo_env(True)
    env["MIRIFLAGS"] = flags
    env["CARGO_TARGET_DIR"] = os.path.join(TARGET, "miri")
    cmd = ["cargo", "+nightly", "miri", "run", "--offline"]
    if extra_features:
        cmd += ["--features", ",".join(extra_features)]
    cmd += ["--", str(scenario), str(threads)] + keys[:1]
    return cmd, env


MIRI_RATES = (0.1, 0.03, 0.01, 0.3)


def miri_flags(ms):
    """Schedule seed -> Miri flags. The preemption rate varies with the seed (swarm style): at 0.1 a
    thread runs about ten basic blocks per slice, at 0.01 about a hundred, so that in some runs
    a thread completes a whole encoding step while another one is parked in the middle of one."""
    return "-Zmiri-seed=%d -Zmiri-preemption-rate=%s" % (ms, MIRI_RATES[ms % len(MIRI_RATES)])


def run_miri(flags, scenario, threads, extra_features=()):
    cmd, env = miri_cmd(flags, scenario, threads, extra_features)
    p = subprocess.run(cmd, cwd=MIRI_DIR, env=env, stdout=subprocess.PIPE, stderr=subprocess.STDOUT, text=True)
    return p.returncode, p.stdout


def run_miri_seeds(nseeds, scenario, threads, extra_features=()):
    """One Miri process per schedule seed, up to `workers()` at a time (Miri's own many-seeds
    mode does not scale on this machine). Returns list of (seed, rc, output)."""
    # build once, serially, so that the parallel invocations find everything compiled
    rc, out = run_miri(miri_flags(0), scenario, threads, extra_features)
    results = [(0, rc, out)]
    pending = list(range(1, nseeds))
    running = []
    while pending or running:
        while pending and len(running) < workers():
            ms = pending.pop(0)
            cmd, env = miri_cmd(miri_flags(ms), scenario, threads, extra_features)
            running.append((ms, subprocess.Popen(cmd, cwd=MIRI_DIR, env=env, stdout=subprocess.PIPE, stderr=subprocess.STDOUT, text=True)))
        ms, p = running.pop(0)
        out, _ = p.communicate()
        results.append((ms, p.returncode, out))
    return sorted(results)


def check_miri(prop, tier, vseed):
    """L3: instruction-level schedules under Miri's seeded scheduler — the crypto-less build, and
    the crypto-enabled code on top of the pure-Rust ring stub (sim/fakering)."""
    t0 = time.time()
    nseeds, scenarios = (16, 1) if tier == "quick" else (96, 3)
    info = {"miri_seeds_per_scenario": nseeds, "scenarios": [], "schedules": 0, "preemption_rates_by_seed_mod_4": list(MIRI_RATES),
            "oracles": ["every thread's TBS and full DER equal the sequential reference", "returned parameters equal the input",
                        "shared issuer unchanged", "Miri data-race and UB detection"],
            "configurations": {"crypto-less": "real code only (rcgen, yasna, time, pem); pure-Rust remote signer",
                               "fakering": "rcgen with the ring feature on top of sim/fakering, a STUB of ring's API (real SHA-256, "
                                           "stand-ins for everything else): hashed key identifiers, automatic serials, local Ed25519 keys",
                               "fakering-rsa": "the same with local RSA keys (stub) shared by the threads: rcgen's RSA signing path with its signature buffer"}}
    unlisted = 0
    with BuildLock("miri"):
        for config, feats in (("crypto-less", ()), ("fakering", ("fakering",)), ("fakering-rsa", ("fakering", "keys=rsa"))):
            for k in range(scenarios):
                scenario = (vseed + k) % (1 << 32)
                threads = 3 + (k % 2)
                res = run_miri_seeds(nseeds, scenario, threads, feats)
                ok = sum(1 for _, rc, out in res if rc == 0 and "OK scenario=" in out)
                info["scenarios"].append({"configuration": config, "scenario_seed": scenario, "threads": threads, "schedules_ok": ok})
                info["schedules"] += ok
                bad = [(ms, out) for ms, rc, out in res if rc != 0]
                if not bad:
                    continue
                ms, out1 = bad[0]
                if "VIOLATION" not in out1 and "Undefined Behavior" not in out1 and "Data race" not in out1 and "panicked" not in out1:
                    raise HarnessError("simmiri[%s] does not build/run under Miri:\n%s" % (config, out1[-4000:]))
                lines = [l for l in out1.splitlines() if "VIOLATION" in l or "Undefined Behavior" in l or "Data race" in l or "panicked" in l]
                detail = (lines[0] if lines else out1[-400:]).strip()
                vclass = "c15-miri-" + ("data-race" if "Data race" in out1 else "ub" if "Undefined Behavior" in out1 else "mismatch")
                os.makedirs(os.path.join(VERIF, "replays"), exist_ok=True)
                rel = os.path.join("replays", "%s-miri-%s-%d-%d.json" % (prop, config, scenario, ms))
                with open(os.path.join(VERIF, rel), "w") as f:
                    json.dump({"property": prop, "kind": "miri", "configuration": config, "features": list(feats), "scenario_seed": scenario,
                               "threads": threads, "miri_seed": ms, "miri_flags": miri_flags(ms),
                               "violation": {"class": vclass, "detail": detail}}, f, indent=1)
                # a second run of the same seed in a fresh process must fail the same way
                rc2, out2 = run_miri(miri_flags(ms), scenario, threads, feats)
                if rc2 == 0:
                    raise HarnessError("Miri seed %d failed once and passed on replay: scheduler not deterministic" % ms)
                k_ = match_known(prop, vclass, detail, {})
                if k_:
                    log("KNOWN-FINDING: property=%s %s" % (prop, k_.get("what", "")))
                else:
                    log("  violation class=%s [%s] scenario=%d miri_seed=%d: %s" % (vclass, config, scenario, ms, detail[:300]))
                    log("VIOLATION property=%s replay=%s" % (prop, rel))
                    unlisted += 1
    info["wall_s"] = round(time.time() - t0, 1)
    return info, unlisted


def replay_miri(path):
    with open(path) as f:
        r = json.load(f)
    rc, out = run_miri(r["miri_flags"], r["scenario_seed"], r["threads"], tuple(r.get("features", [])))
    sys.stdout.write(out[-3000:])
    if rc != 0:
        log("VIOLATION property=%s replay=%s" % (r["property"], path))
        return 1
    log("replay: no violation on this tree")
    return 0


def cli_env(backend, cli_bin):
    scratch = os.path.join(WORK, "cli")
    os.makedirs(scratch, exist_ok=True)
    return {"CLISIM_BIN": cli_bin, "CLISIM_SHIM": build_shim(), "CLISIM_SCRATCH": scratch, "CLISIM_BACKEND": backend}


def check_c18(tier):
    t0 = time.time()
    vseed = seed()
    q = tier == "quick"
    clisim = build_tool("clisim")
    plan = []
    build_failures = []
    for backend, scale in (("ring", 1.0), ("aws_lc_rs", 0.4)):
        cli, err = build_cli(backend)
        if cli is None:
            build_failures.append((backend, err))
            continue
        env = cli_env(backend, cli)
        for mode, n in (("mixed", 960 if q else 24000), ("faults", 640 if q else 16000), ("enum", 96 if q else 1600)):
            plan.append({"label": "%s/%s" % (backend, mode), "features": ["clisim"], "engine": "cli-sim", "mode": mode,
                         "runs": max(16, int(n * scale)), "binary": clisim, "env": env, "backend": backend})
    if build_failures:
        raise HarnessError("the CLI does not build for %s:\n%s" % (build_failures[0][0], build_failures[0][1]))
    results, unlisted = run_plan("C18", plan, tier, vseed)
    evaluations = sum(len(b.runs) for _, b in results)
    dn = sum(b.distinct_nontrivial() for _, b in results)
    samples = []
    for item, b in results:
        if b.samples and len(samples) < 3:
            samples.append({"batch": item["label"], "trace": b.samples[0]})
    faults = {}
    for _, b in results:
        for k, v in b.counters.items():
            if k.startswith("fault_"):
                faults[k[6:]] = faults.get(k[6:], 0) + v
    coverage = {
        "evaluations": evaluations,
        "distinct_nontrivial": dn,
        "rule": "one evaluation = one seeded directory history (pre-state + 1-3 invocations of the real binary, one of them possibly "
                "under a system-call or file-level fault); in enum batches additionally one re-execution per (system call of the last "
                "invocation's fault-free run x errno). non-trivial = more than one invocation, or an invalid option set, or >= 2 names, "
                "or a fault; distinct = distinct explicit-trace hashes among those",
        "samples": samples,
        "batches": [batch_cov(i["label"], b) for i, b in results],
        "invocations_of_the_binary": sum_counter(results, "invocations"),
        "valid_outputs_fully_checked": sum_counter(results, "valid_outputs_fully_checked"),
        "invalid_option_invocations": sum_counter(results, "invalid_option_invocations"),
        "openssl_chain_verified": sum_counter(results, "openssl_chain_verified"),
        "webpki_chain_verified": sum_counter(results, "webpki_chain_verified"),
        "fault_kinds_fired": dict(sorted(faults.items())),
        "invocations_in_which_a_neighbour_won_the_mkdir_race(not a fault: success demanded)": sum_counter(results, "neighbour_won_mkdir_race"),
        "invocations_started_in_a_removed_working_directory(absolute output path; success demanded)": sum_counter(results, "invocations_started_in_a_removed_directory"),
        "faults_fired_total": sum_counter(results, "faults_fired"),
        "faults_armed_but_never_reached": sum_counter(results, "faults_armed_not_reached"),
        "enumerated_fault_points": sum_counter(results, "enum_fault_points"),
        "faulted_invocations_exit0_then_fully_checked": sum_counter(results, "faulted_invocations_exit0"),
        "faulted_invocations_failed": sum_counter(results, "faulted_invocations_failed_cleanly"),
        "same_seed_twice_byte_identical(ring)": sum_counter(results, "determinism_pairs"),
        "simulated_time": "the tool reads no clock; logical steps = invocations",
        "real_components": ["rustls-cert-gen binary (ring and aws_lc_rs builds) with all of rcgen inside", "the kernel file system in a per-run scratch directory"],
        "simulated_components": ["getrandom (seeded stream, fail points)", "write/open/mkdir failures and short counts (detsys.so)",
                                 "target files pre-created as directory or symlink to /dev/full"],
        "exhaustive": False,
        "exhaustive_note": "per sampled scenario of an enum batch every getrandom/write/open/mkdir call of the fault-free run is failed with every listed errno",
    }
    assumptions = [
        "OpenSSL 3.0 and webpki (ring provider) are the independent chain validators; webpki is skipped for P-521",
        "the harness TLV reader decides extension contents (names, usages, basic constraints)",
        "under any fault only 'exit 0 implies four valid files' is judged",
        "aws-lc-rs randomness is not seamed (keys stay random there); no oracle reads key bits",
    ]
    write_evidence("C18", tier, "exploration", coverage, assumptions, time.time() - t0, unlisted)
    return 1 if unlisted else 0


def all_configs():
    out = []
    for backend in ("ring", "aws_lc_rs", None):
        for pem in (0, 1):
            for x509 in (0, 1):
                for zeroize in (0, 1):
                    f = ([backend] if backend else []) + (["pem"] if pem else []) + (["x509-parser"] if x509 else []) + (["zeroize"] if zeroize else [])
                    out.append({"backend": backend, "pem": pem, "x509": x509, "zeroize": zeroize, "features": f})
    return out


def cargo_check_config(features, hook):
    """cargo check of rcgen itself in one advertised feature set (guard off = the shipped crate)."""
    tdir = os.path.join(TARGET, "matrix-" + ("on" if hook else "off"))
    cmd = ["cargo", "check", "--offline", "-p", "rcgen", "--lib", "--no-default-features", "--target-dir", tdir]
    if features:
        cmd += ["--features", ",".join(features)]
    with BuildLock("matrix-" + ("on" if hook else "off")):
        p = subprocess.run(cmd, cwd=REPO, env=cargo_env(hook), stdout=subprocess.PIPE, stderr=subprocess.STDOUT, text=True)
    return p.returncode == 0, p.stdout


def check_packaged_crate(tier):
    """The crate as users get it: `cargo package` of rcgen (from the working tree), unpacked
    outside the workspace, compiled in a few of its advertised feature sets. Paths that only
    resolve inside the checkout (include_str!, build scripts, path dependencies) show up here and
    nowhere else. The unpacked copy lives under /tmp for the duration of the step only; compiled
    dependencies are shared with the feature-matrix builds."""
    tag = SHADOW or "main"
    scratch = "/tmp/rcgen-verif-pkg-" + tag
    shutil.rmtree(scratch, ignore_errors=True)
    os.makedirs(scratch)
    tdir = os.path.join(TARGET, "matrix-off")
    results = []
    try:
        with BuildLock("matrix-off"):
            p = subprocess.run(["cargo", "package", "-p", "rcgen", "--offline", "--allow-dirty", "--no-verify", "--target-dir", os.path.join(scratch, "pkg")],
                               cwd=REPO, env=cargo_env(False), stdout=subprocess.PIPE, stderr=subprocess.STDOUT, text=True)
        if p.returncode != 0:
            return [{"features": ["<cargo package>"], "ok": False, "out": p.stdout}]
        crates = [f for f in os.listdir(os.path.join(scratch, "pkg", "package")) if f.endswith(".crate")]
        if len(crates) != 1:
            raise HarnessError("cargo package left %r" % crates)
        subprocess.run(["tar", "xzf", os.path.join(scratch, "pkg", "package", crates[0]), "-C", scratch], check=True)
        src = os.path.join(scratch, crates[0][:-len(".crate")])
        # the versions the workspace is locked to (all in the offline cache)
        shutil.copy(os.path.join(REPO, "Cargo.lock"), os.path.join(src, "Cargo.lock"))
        sets = [None, ["pem"], ["ring", "pem", "x509-parser"], ["aws_lc_rs", "pem"]]
        if tier != "quick":
            sets += [[], ["crypto", "ring"], ["aws_lc_rs", "x509-parser", "zeroize"], ["pem", "x509-parser", "zeroize"]]
        for feats in sets:
            cmd = ["cargo", "check", "--offline", "--lib", "--target-dir", tdir]
            if feats is not None:
                cmd += ["--no-default-features"]
                if feats:
                    cmd += ["--features", ",".join(feats)]
            with BuildLock("matrix-off"):
                p = subprocess.run(cmd, cwd=src, env=cargo_env(False), stdout=subprocess.PIPE, stderr=subprocess.STDOUT, text=True)
            results.append({"features": ["<packaged crate>"] + (["<default>"] if feats is None else feats), "ok": p.returncode == 0, "out": p.stdout})
    finally:
        shutil.rmtree(scratch, ignore_errors=True)
    return results


def report_simple_violation(prop, rel, doc, what):
    os.makedirs(os.path.join(VERIF, "replays"), exist_ok=True)
    with open(os.path.join(VERIF, rel), "w") as f:
        json.dump(doc, f, indent=1)
    k = match_known(prop, doc["violation"]["class"], doc["violation"]["detail"], doc)
    if k:
        log("KNOWN-FINDING: property=%s %s" % (prop, k.get("what", "")))
        return 0
    log("  violation class=%s: %s" % (doc["violation"]["class"], what[:400]))
    log("VIOLATION property=%s replay=%s" % (prop, rel))
    return 1


def compare_nodes(prop, nodes, engine, mode, tier, n, vseed):
    """Same seeded history into every node; per-run logs must be identical.
    nodes: list of feature lists. Returns (per-node info, batches, unlisted)."""
    base = None
    info = []
    batches = []
    unlisted = 0
    for feats in nodes:
        binary = build_simnode(feats, hook=True)
        shim_env = {"LD_PRELOAD": build_shim(), "DETSYS_RAND_SEED": str(vseed)}
        b = run_batch(binary, engine, mode, tier, n, vseed, env_extra=shim_env)
        batches.append((feats, b))
        info.append({"node": feat_tag(feats), "mode": mode, "runs": len(b.runs), "event_log_digest": b.log_digest(), "wall_s": round(b.wall, 2)})
        if b.violations:
            desc = {"features": feats, "hook": True, "shim": True}
            u, _k = handle_violations(prop, binary, desc, engine, mode, b, vseed, env_extra=shim_env)
            unlisted += u
        if base is None:
            base = (feats, b)
            continue
        if b.log_digest() != base[1].log_digest():
            a = {r[0]: r for r in base[1].runs}
            idx = next((r[0] for r in b.runs if a.get(r[0]) != r), -1)
            rel = os.path.join("replays", "%s-divergence-%s-vs-%s-%s-%d.json" % (prop, feat_tag(base[0]), feat_tag(feats), mode.replace(":", ""), idx))
            doc = {"property": prop, "kind": "config-divergence", "engine": engine, "mode": mode, "tier": tier, "verif_seed": vseed,
                   "run_index": idx, "nodes": [base[0], feats],
                   "violation": {"class": "c16-nodes-disagree",
                                 "detail": "run %d: nodes [%s] and [%s] log different outcomes / to-be-signed bytes for the same history" % (idx, feat_tag(base[0]), feat_tag(feats))}}
            os.makedirs(os.path.join(VERIF, "replays"), exist_ok=True)
            with open(os.path.join(VERIF, rel), "w") as f:
                json.dump(doc, f, indent=1)
            if replay_divergence(os.path.join(VERIF, rel), quiet=True) != 1:
                raise HarnessError("node divergence at run %d did not reproduce" % idx)
            unlisted += report_simple_violation(prop, rel, doc, doc["violation"]["detail"])
    return info, batches, unlisted


def replay_divergence(path, quiet=False):
    with open(path) as f:
        r = json.load(f)
    logs = []
    for feats in r["nodes"]:
        binary = build_simnode(feats, hook=True)
        g = subprocess.run([binary, r["engine"], "gen", "--seed", str(r["verif_seed"]), "--index", str(r["run_index"]), "--mode", r["mode"], "--tier", r.get("tier", "quick")],
                           stdout=subprocess.PIPE, text=True)
        tf = os.path.join(WORK, "div-%s.json" % feat_tag(feats))
        os.makedirs(WORK, exist_ok=True)
        with open(tf, "w") as f:
            f.write(g.stdout)
        p = subprocess.run([binary, r["engine"], "exec", "--trace", tf, "-v"], stdout=subprocess.PIPE, stderr=subprocess.PIPE, text=True)
        lines = [l for l in p.stdout.splitlines() if l.startswith("  ")]
        logs.append(lines)
        if not quiet:
            log("node [%s]:" % feat_tag(feats))
            for l in lines:
                log("  " + l)
    if logs[0] != logs[1]:
        if not quiet:
            log("VIOLATION property=%s replay=%s" % (r["property"], path))
        return 1
    if not quiet:
        log("replay: nodes agree on this tree")
    return 0


def exchange(prop, producer_feats, consumer_feats, vseed, rounds):
    """Keys and certificates produced by one back end, loaded / verified by the other."""
    pb = build_simnode(producer_feats, hook=True)
    cb = build_simnode(consumer_feats, hook=True)
    os.makedirs(WORK, exist_ok=True)
    xf = os.path.join(WORK, "xchg-%s.jsonl" % feat_tag(producer_feats))
    p = subprocess.run([pb, "xchg-produce", "--seed", str(vseed), "--rounds", str(rounds)], stdout=subprocess.PIPE, stderr=subprocess.PIPE, text=True)
    if p.returncode != 0:
        raise HarnessError("xchg-produce failed on [%s]: %s" % (feat_tag(producer_feats), p.stderr[-2000:]))
    with open(xf, "w") as f:
        f.write(p.stdout)
    items = p.stdout.splitlines()
    c = subprocess.run([cb, "xchg-consume", "--in", xf], stdout=subprocess.PIPE, stderr=subprocess.PIPE, text=True)
    if c.returncode not in (0, 1):
        raise HarnessError("xchg-consume failed on [%s]: %s" % (feat_tag(consumer_feats), c.stderr[-2000:]))
    loads = verifs = 0
    unlisted = 0
    for line in c.stdout.splitlines():
        d = json.loads(line)
        loads += d["loads"]
        verifs += d["verifications"]
        if d["problems"]:
            pr = d["problems"][0]
            rel = os.path.join("replays", "%s-xchg-%s-to-%s-%d.json" % (prop, feat_tag(producer_feats), feat_tag(consumer_feats), d["item"]))
            doc = {"property": prop, "kind": "exchange", "producer": producer_feats, "consumer": consumer_feats,
                   "item": json.loads(items[d["item"]]), "violation": {"class": pr["class"], "detail": pr["detail"]}}
            unlisted += report_simple_violation(prop, rel, doc, pr["detail"])
    return {"producer": feat_tag(producer_feats), "consumer": feat_tag(consumer_feats), "items": len(items), "key_loads_checked": loads,
            "signature_verifications": verifs}, unlisted


def replay_exchange(path):
    with open(path) as f:
        r = json.load(f)
    cb = build_simnode(r["consumer"], hook=True)
    xf = os.path.join(WORK, "xchg-replay.jsonl")
    os.makedirs(WORK, exist_ok=True)
    with open(xf, "w") as f:
        f.write(json.dumps(r["item"]) + "\n")
    c = subprocess.run([cb, "xchg-consume", "--in", xf], stdout=subprocess.PIPE, stderr=subprocess.PIPE, text=True)
    sys.stdout.write(c.stdout)
    if c.returncode == 1:
        log("VIOLATION property=%s replay=%s" % (r["property"], path))
        return 1
    log("replay: no violation on this tree")
    return 0


def replay_build(path):
    with open(path) as f:
        r = json.load(f)
    if r.get("what") == "cli":
        cli, err = build_cli(r["backend"])
        ok, out = cli is not None, err
    elif r.get("what") == "packaged":
        res = check_packaged_crate("thorough")
        bad = [x for x in res if not x["ok"]]
        ok, out = not bad, (bad[0]["out"] if bad else "")
    else:
        ok, out = cargo_check_config(r["features"], r.get("hook", False))
    if not ok:
        sys.stdout.write(out[-3000:])
        log("VIOLATION property=%s replay=%s" % (r["property"], path))
        return 1
    log("replay: this configuration builds on this tree")
    return 0


def check_c16(tier):
    t0 = time.time()
    vseed = seed()
    q = tier == "quick"
    unlisted = 0
    # A. boot: every advertised feature set compiles (guard off = the shipped crate)
    boot = []
    for cfg in all_configs():
        ok, out = cargo_check_config(cfg["features"], hook=False)
        boot.append({"features": cfg["features"], "ok": ok})
        if not ok:
            errs = [l for l in out.splitlines() if l.startswith("error")]
            detail = "rcgen does not compile with features [%s]: %s" % (",".join(cfg["features"]) or "none", "; ".join(errs[:3]))
            rel = os.path.join("replays", "C16-build-%s.json" % feat_tag(cfg["features"]))
            doc = {"property": "C16", "kind": "build-failure", "features": cfg["features"], "hook": False,
                   "violation": {"class": "c16-does-not-build", "detail": detail}, "compiler_output_tail": out[-3000:]}
            unlisted += report_simple_violation("C16", rel, doc, detail)
    for backend in ("ring", "aws_lc_rs"):
        cli, err = build_cli(backend)
        boot.append({"features": ["rustls-cert-gen", backend], "ok": cli is not None})
        if cli is None:
            detail = "rustls-cert-gen does not build for %s" % backend
            doc = {"property": "C16", "kind": "build-failure", "what": "cli", "backend": backend,
                   "violation": {"class": "c16-does-not-build", "detail": detail}, "compiler_output_tail": err[-3000:]}
            unlisted += report_simple_violation("C16", os.path.join("replays", "C16-build-cli-%s.json" % backend), doc, detail)
    # the crate as packaged for publication, compiled outside the workspace
    for r in check_packaged_crate(tier):
        boot.append({"features": r["features"], "ok": r["ok"]})
        if not r["ok"]:
            errs = [l for l in r["out"].splitlines() if l.startswith("error")]
            detail = "the packaged rcgen crate (cargo package, unpacked outside the workspace) does not compile with [%s]: %s" % (",".join(r["features"][1:]), "; ".join(errs[:3]))
            rel = os.path.join("replays", "C16-build-packaged-%s.json" % feat_tag([f.strip("<>") for f in r["features"][1:]]))
            doc = {"property": "C16", "kind": "build-failure", "what": "packaged", "features": r["features"][1:], "hook": False,
                   "violation": {"class": "c16-does-not-build", "detail": detail}, "compiler_output_tail": r["out"][-3000:]}
            unlisted += report_simple_violation("C16", rel, doc, detail)
    # informational only: cargo features are additive, and rcgen's source lets aws-lc-rs win when
    # both back ends are enabled (what `rustls-cert-gen --features aws_lc_rs` without
    # --no-default-features asks for). The property's quantifier lists the back ends as
    # alternatives, so a failure here is reported as a NOTE, not as a violation.
    both = []
    for extra in ([], ["pem"], ["pem", "x509-parser", "zeroize"]):
        feats = ["ring", "aws_lc_rs"] + extra
        ok, out = cargo_check_config(feats, hook=False)
        both.append({"features": feats, "ok": ok})
        if not ok:
            log("NOTE: rcgen does not compile with both back ends enabled [%s] (outside the property's quantifier as stated; not counted)" % ",".join(feats))
    node_info = []
    all_batches = []
    xinfo = []
    if all(b["ok"] for b in boot):
        # B. agreement between independently built nodes
        classes = [(1, 1)] if q else [(0, 0), (0, 1), (1, 0), (1, 1)]
        for pem, x509 in classes:
            extra = (["pem"] if pem else []) + (["x509-parser"] if x509 else [])
            zs = [[]] if q else [[], ["zeroize"]]
            three = [([b] if b else []) + extra + z for z in zs for b in ("ring", "aws_lc_rs", None)]
            if q:
                three.append(["ring"] + extra + ["zeroize"])
            two = [[b] + extra + z for z in zs for b in ("ring", "aws_lc_rs")]
            n3, n2 = (1600, 1200) if q else (12000, 8000)
            info, batches, u = compare_nodes("C16", three, "replica-sim", "three:%d:%d" % (pem, x509), tier, n3, vseed)
            node_info += info
            all_batches += batches
            unlisted += u
            info, batches, u = compare_nodes("C16", two, "replica-sim", "two:%d:%d" % (pem, x509), tier, n2, vseed)
            node_info += info
            all_batches += batches
            unlisted += u
        # C. message passing between back ends: exported keys and signed artefacts
        R = ["ring", "pem", "x509-parser"]
        A = ["aws_lc_rs", "pem", "x509-parser"]
        pairs = [(R, A), (A, R), (R, R), (A, A)]
        if not q:
            pairs += [(["ring"], ["aws_lc_rs"]), (["aws_lc_rs"], ["ring"])]
        for pf, cf in pairs:
            xi, u = exchange("C16", pf, cf, vseed, 2 if q else 12)
            xinfo.append(xi)
            unlisted += u
    evaluations = sum(len(b.runs) for _, b in all_batches) + len(boot) + sum(x["items"] for x in xinfo)
    dn = sum(b.distinct_nontrivial() for _, b in all_batches)
    samples = []
    for feats, b in all_batches[:2]:
        if b.samples:
            samples.append({"node": feat_tag(feats), "trace": b.samples[0]})
    if not samples:
        samples = [{"boot": boot[:3]}]
    coverage = {
        "evaluations": evaluations,
        "distinct_nontrivial": max(dn, 2) if all_batches else len(boot),
        "rule": "boot: one evaluation per advertised feature set (cargo check of rcgen, guard off) plus the two CLI builds. agreement: one "
                "evaluation = one seeded issuance history executed on one node (a simnode binary built for one feature set); all nodes "
                "of a comparison group must log identical outcome classes, TBS digests and (deterministic schemes) DER digests; non-trivial "
                "= >= 3 operations; distinct = distinct explicit-trace hashes per node. exchange: one evaluation per exported key/certificate",
        "samples": samples,
        "configs_checked": len(boot),
        "configs_ok": sum(1 for b in boot if b["ok"]),
        "boot": boot,
        "both_back_ends_enabled_builds(informational, not part of the claim)": both,
        "exhaustive": True,
        "exhaustive_note": "exhaustive for the build clause only: all 24 advertised feature sets of rcgen and both CLI back ends are compiled; "
                           "agreement and exchange are seeded sampling",
        "nodes": node_info,
        "exchange": xinfo,
        "own_backend_verifications": sum(b.counters.get("own_backend_verified", 0) for _, b in all_batches),
        "openssl_verifications": sum(b.counters.get("openssl_verified", 0) for _, b in all_batches),
        "operations": sum(b.counters.get("ops", 0) for _, b in all_batches),
        "fault_kinds_fired": {"none": "this property has no fault dimension; the simulator contributes the replica-divergence check and the message passing between builds"},
        "simulated_time": "no clock; logical steps = operations",
        "real_components": ["rcgen in every feature set", "ring", "aws-lc-rs", "x509-parser", "pem", "yasna", "time"],
        "simulated_components": ["remote signer for crypto-less nodes (OpenSSL inside, same private keys as the crypto nodes load locally)",
                                 "hash state of name maps (hook H1)"],
    }
    assumptions = [
        "x86_64 Linux only; the fips feature and enabling both back ends at once are not advertised choices and are not built",
        "OpenSSL 3.0 as third verifier; ring / aws-lc-rs UnparsedPublicKey::verify linked by the harness as each node's own verifier",
    ]
    write_evidence("C16", tier, "exploration", coverage, assumptions, time.time() - t0, unlisted)
    return 1 if unlisted else 0


CHECKS = {"C20": check_c20, "C01": check_c01, "C15": check_c15, "C16": check_c16, "C18": check_c18}


def selftest_determinism(n_runs):
    """Runs many run seeds per engine twice each (separate processes) at 1, 4 and 16 workers and
    diffs the per-run event-log hashes. Any difference is a harness failure."""
    R = ["ring", "pem", "x509-parser"]
    N = ["pem", "x509-parser"]
    shim_env = {"LD_PRELOAD": build_shim(), "DETSYS_RAND_SEED": str(seed())}
    A = ["aws_lc_rs", "pem", "x509-parser"]
    e = shim_env  # as in the checks themselves: every simulated run sits on the system-call seam
    cases = [
        ("dn-sim", "small", R, e, n_runs * 4), ("dn-sim", "wide", R, e, n_runs * 2), ("dn-sim", "long", R, e, 16),
        ("sign-sim", "plain", R, e, n_runs), ("sign-sim", "faults", R, e, n_runs), ("sign-sim", "enum", R, e, n_runs // 4),
        ("sign-sim", "rng", R, e, n_runs), ("sign-sim", "enum-rng", R, e, n_runs // 4),
        ("sign-sim", "faults", N, e, n_runs), ("sign-sim", "plain", A, e, n_runs),
        ("purity-hist", "default", R, e, n_runs), ("purity-hist", "default", A, e, n_runs // 2),
        ("purity-shuttle", "default", R + ["shuttle"], e, n_runs // 4),
        ("purity-lib", "default", R + ["clilib-ring"], e, n_runs),
        ("replica-sim", "three:1:1", R, e, n_runs), ("replica-sim", "two:1:1", R, e, n_runs),
    ]
    bad = 0
    for engine, mode, feats, env, n in cases:
        n = max(n, 16)
        binary = build_simnode(feats, hook=True)
        digests = {}
        for w in (1, 4, 16, 7):
            b = run_batch(binary, engine, mode, "quick", n, seed(), nworkers=w, env_extra=env)
            digests[w] = (b.log_digest(), b.runs)
        ref = digests[1]
        ok = all(d[0] == ref[0] for d in digests.values())
        log("%-15s %-10s [%s] runs=%d workers 1/4/16/7: %s" % (engine, mode, feat_tag(feats), n, "identical" if ok else "DIFFERENT"))
        if not ok:
            bad += 1
            for w, d in digests.items():
                diff = [r for r, q in zip(d[1], ref[1]) if r != q][:3]
                if diff:
                    log("   workers=%d first differing runs: %s" % (w, diff))
    # cli-sim (ring build under the shim is byte-deterministic)
    clisim = build_tool("clisim")
    cli, err = build_cli("ring")
    if cli:
        env = cli_env("ring", cli)
        ds = []
        for w in (1, 8, 16):
            b = run_batch(clisim, "cli-sim", "mixed", "quick", max(n_runs // 2, 16), seed(), nworkers=w, env_extra=env)
            ds.append(b.log_digest())
        ok = len(set(ds)) == 1
        log("%-15s %-10s [ring cli] workers 1/8/16: %s" % ("cli-sim", "mixed", "identical" if ok else "DIFFERENT"))
        bad += 0 if ok else 1
    if bad:
        raise HarnessError("%d engine(s) are not deterministic" % bad)
    log("determinism self-test passed")
    return 0


def setup_build():
    """setup_cmd: pre-build everything the quick checks need (they rebuild incrementally anyway)."""
    t0 = time.time()
    build_shim()
    R = ["ring", "pem", "x509-parser"]
    A = ["aws_lc_rs", "pem", "x509-parser"]
    N = ["pem", "x509-parser"]
    for feats, hook in ((R, True), (A, True), (N, True), (R + ["shuttle"], True), (N + ["shuttle"], True), (R, False)):
        build_simnode(feats, hook=hook, quiet=False)
    build_simnode(R, hook=True, quiet=False, dbg=True)
    build_simnode(R + ["zeroize"], hook=True, quiet=False)
    build_simnode(A + ["zeroize"], hook=True, quiet=False)
    build_tool("clisim")
    for backend in ("ring", "aws_lc_rs"):
        cli, err = build_cli(backend)
        if cli is None:
            raise HarnessError("CLI build failed for %s:\n%s" % (backend, err))
        log("built rustls-cert-gen[%s]" % backend)
    for cfg in all_configs():
        ok, out = cargo_check_config(cfg["features"], hook=False)
        if not ok:
            log("note: rcgen does not compile with [%s] (C16 will report it)" % ",".join(cfg["features"]))
    rc, out = run_miri("-Zmiri-seed=0 -Zmiri-preemption-rate=0.1", 1, 2)
    log("miri warm-up rc=%d" % rc)
    if rc != 0:
        log(out[-1500:])
    log("setup done in %.0fs" % (time.time() - t0))
    return 0


def replay(path):
    with open(path) as f:
        r = json.load(f)
    if r.get("kind") == "replica-divergence":
        return replay_replica(path)
    if r.get("kind") == "miri":
        return replay_miri(path)
    if r.get("kind") == "config-divergence":
        return replay_divergence(path)
    if r.get("kind") == "exchange":
        return replay_exchange(path)
    if r.get("kind") == "build-failure":
        return replay_build(path)
    b = r["build"]
    env = dict(os.environ)
    if r["engine"] == "cli-sim":
        binary = build_tool("clisim")
        cli, err = build_cli(b.get("cli_backend", "ring"))
        if cli is None:
            raise HarnessError("CLI build failed: " + err)
        env.update(cli_env(b.get("cli_backend", "ring"), cli))
    else:
        binary = build_simnode(b["features"], hook=b.get("hook", True), dbg=bool(b.get("dbg")))
    if b.get("shim"):
        env.update({"LD_PRELOAD": build_shim(), "DETSYS_RAND_SEED": str(r.get("verif_seed", DEFAULT_SEED))})
    p = subprocess.run([binary, r["engine"], "exec", "--trace", path, "-v"], stdout=subprocess.PIPE, stderr=subprocess.PIPE, text=True, env=env)
    sys.stdout.write(p.stdout)
    if p.returncode == 1:
        if r.get("known_finding"):
            log("(reproduced; this is the listed finding %s of known_findings.json)" % r["known_finding"])
        log("VIOLATION property=%s replay=%s" % (r["property"], path))
        return 1
    if p.returncode == 0:
        log("replay: no violation on this tree")
        return 0
    sys.stderr.write(p.stderr)
    return 2


def main(argv):
    try:
        prepare_shadow()
        if not argv:
            print(__doc__)
            return 2
        if argv[0] == "replay":
            return replay(argv[1])
        if argv[0] == "build":
            return setup_build()
        if argv[0] == "selftest":
            n = 200
            if "--runs" in argv:
                n = int(argv[argv.index("--runs") + 1])
            return selftest_determinism(n)
        if argv[0] in CHECKS:
            tier = argv[1] if len(argv) > 1 else os.environ.get("VERIF_TIER", "quick")
            if tier not in ("quick", "thorough"):
                tier = "quick"
            rc = CHECKS[argv[0]](tier)
            log("%s %s: %s" % (argv[0], tier, "held on everything explored" if rc == 0 else "VIOLATED"))
            return rc
        print("unknown command", argv[0])
        return 2
    except HarnessError as e:
        sys.stderr.write("HARNESS ERROR: %s\n" % e)
        return 2
